#!/bin/bash
# usage: ./run.sh <ID> [quick|thorough]      run one property check (rebuilds from /repo's working tree)
#        ./run.sh replay <path>              re-execute one recorded violation
#        ./run.sh build                      build only
# exit: 0 property held on everything explored; 1 violation (VIOLATION line printed); 2 machinery failure
set -u
cd "$(dirname "$0")"
export CARGO_NET_OFFLINE=true
export CARGO_TARGET_DIR="${WFV_TARGET_DIR:-/verif/target}"
export WFV_VERIF_DIR="$(pwd)"
BIN="$CARGO_TARGET_DIR/release/wfv"

build() {
  local log
  log="$(mktemp "${TMPDIR:-/tmp}/wfv-build.XXXXXX")"
  if ! (cd harness && cargo build --release --offline) >"$log" 2>&1; then
    echo "MACHINERY-FAILURE: harness build failed (cloudflare/wirefilter tree does not build with hooks on?)" >&2
    tail -n 40 "$log" >&2
    rm -f "$log"
    exit 2
  fi
  rm -f "$log"
}

case "${1:-}" in
  build) build; exit 0 ;;
  replay)
    build
    exec "$BIN" replay "${2:?path}"
    ;;
  C[0-9][0-9])
    id="$1"; tier="${2:-quick}"
    build
    "$BIN" check "$id" --tier "$tier"
    rc=$?
    if [ $rc -gt 2 ]; then
      echo "MACHINERY-FAILURE: wfv exited with status $rc" >&2
      exit 2
    fi
    exit $rc
    ;;
  *) echo "usage: $0 <ID> [quick|thorough] | replay <path> | build" >&2; exit 2 ;;
esac
