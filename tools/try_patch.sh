#!/bin/bash
# usage: tools/try_patch.sh <patch.diff> <ID> [<ID>...]   (env TIER=quick|thorough)
# Applies the patch to /repo, runs the listed checks, and always restores /repo afterwards.
set -u
patch="$1"; shift
cd /verif
if ! git -C /repo diff --quiet; then echo "/repo working tree is not clean" >&2; exit 2; fi
git -C /repo apply "$patch" || { echo "patch does not apply" >&2; exit 2; }
trap 'git -C /repo checkout -- . ; git -C /repo clean -fdq -- engine/tests ffi/tests 2>/dev/null' EXIT
for id in "$@"; do
  ./run.sh "$id" "${TIER:-quick}" 2>&1 | tail -n 6
  echo "== $id rc=${PIPESTATUS[0]}"
done
