#!/bin/bash
# For every seeded/own_* mutant: apply to /repo, run the baseline suite (must stay 156 passed), run the target check, restore.
cd /verif
for d in seeded/own_*/; do
  name=$(basename "$d")
  target=$(python3 -c "import json;print(json.load(open('$d/meta.json'))['property'])")
  git -C /repo diff --quiet || { echo "/repo not clean"; exit 2; }
  git -C /repo apply "/verif/$d/patch.diff" || { echo "$name: patch does not apply"; continue; }
  suite=$(cd /repo && cargo nextest run --workspace --no-fail-fast --offline 2>&1 | grep -E "^\s+Summary|error(\[|:)" | head -2 | tr '\n' ' ')
  out=$(./run.sh "$target" quick 2>&1); rc=$?
  first=$(echo "$out" | grep -m1 -- "->" | cut -c1-260)
  git -C /repo checkout -- .
  echo "$name | suite: $suite | $target rc=$rc | $first"
  echo "suite: $suite" > "$d/detected.txt"; echo "$target rc=$rc $first" >> "$d/detected.txt"
done
