#!/bin/bash
# usage: tools/seed_matrix.sh [all]   applies every seeded patch to /repo in turn, runs its target check
# (or all checks with `all`; SEEDS="name name" restricts the seeds), restores /repo, and writes seeded/<name>/detected.txt
cd /verif
mode="${1:-target}"
list="seeded/*/"; [ -n "${SEEDS:-}" ] && list=$(for s in $SEEDS; do echo "seeded/$s/"; done)
for d in $list; do
  name=$(basename "$d")
  [ -f "$d/patch.diff" ] || continue
  target=$(python3 -c "import json,sys;print(json.load(open('$d/meta.json'))['property'])" 2>/dev/null || echo "${name##*_}")
  if ! git -C /repo diff --quiet; then echo "/repo not clean"; exit 2; fi
  git -C /repo apply "/verif/$d/patch.diff" || { echo "$name: patch does not apply"; continue; }
  ids="$target"; [ "$mode" = all ] && ids=$(seq -f "C%02g" 1 20)
  : > "$d/detected.txt"
  for id in $ids; do
    out=$(./run.sh "$id" quick 2>&1); rc=$?
    first=$(echo "$out" | grep -m1 -- "->" | cut -c1-300)
    echo "$id rc=$rc $first" >> "$d/detected.txt"
  done
  git -C /repo checkout -- .
  echo "$name: $(grep -c 'rc=1' $d/detected.txt) detecting check(s): $(grep 'rc=1' $d/detected.txt | cut -d' ' -f1 | tr '\n' ' ')"
done
