#!/usr/bin/env python3
"""Generates /verif/MANIFEST.json from the table below (single source of truth)."""
import json, os, sys

HERE = os.path.dirname(os.path.dirname(os.path.abspath(__file__)))

# id -> (category, technique, level text, level note, design ref)
CHECKS = {
    "C01": ("exploration",
            "bounded exhaustive enumeration of programs x contexts x configurations against a reference evaluator",
            "Every formula of three explicit layers (all comparison atoms over value pools; all boolean structures with <=3 (quick) / <=5 (thorough) binary operators, 0-2 nots per operand and one optional parenthesised sub-chain; mixed comparison formulas) is parsed, compiled and executed by the real engine on every context of its pool under all four configurations (fields optional/mandatory x nil-not-equal true/false) and compared with an independent reference evaluator (precedence by splitting at the weakest operator). Exhaustive within the stated alphabet, so a wrong table entry, precedence or nil default has a witness inside the space.",
            "Reference evaluator in harness/src/sem.rs + association builder in checks/c01.rs; values outside the pools are not explored.",
            "DESIGN.md §5 C01"),
}

PENDING_REASON = "check not built yet in this session; planned in DESIGN.md (bounded exhaustive formulation exists)"

ALL = ["C%02d" % i for i in range(1, 21)]


def main():
    checks = []
    for cid in ALL:
        if cid not in CHECKS:
            continue
        cat, tech, text, note, ref = CHECKS[cid]
        checks.append({
            "property_id": cid,
            "quick_cmd": f"./run.sh {cid} quick",
            "thorough_cmd": f"./run.sh {cid} thorough",
            "evidence_file": f"/verif/evidence/{cid}.json",
            "replay_cmd_template": "./run.sh replay {path}",
            "engine": "wfv",
            "level_claimed": {"category": cat, "text": text, "design_ref": ref},
            "level_note": note,
            "technique": tech,
        })
    manifest = {
        "version": 1,
        "setup_cmd": "./run.sh build",
        "hooks": {
            "guard": "cargo feature `verif-hooks` of the wirefilter-engine crate (cfg(feature = \"verif-hooks\"))",
            "enable": "the harness crate depends on wirefilter-engine with features = [\"verif-hooks\"] (path /repo/engine); wirefilter-ffi is unified onto the same build",
            "baseline_off_cmd": "cd /repo && cargo nextest run --workspace --no-fail-fast --offline",
            "source_commits": ["abf2c90"],
            "add_only": True,
        },
        "engines": [{
            "name": "wfv",
            "path": "/verif/harness",
            "serves_properties": [c["property_id"] for c in checks],
            "kind_free_text": "purpose-built explicit-state / bounded-exhaustive explorer in Rust running the real wirefilter code against reference models (program x input enumeration, BFS over operation histories with state dedup, preemption-bounded DFS over schedules under a cooperative scheduler)",
        }],
        "checks": checks,
        "notes": "Exit protocol: 0 held / 1 violation (VIOLATION property=<id> replay=<path>) / 2 machinery failure. Known findings: /verif/known_findings.jsonl. Seeded defects and which check catches them: /verif/seeded/ and DESIGN.md §9.",
        "not_applicable": [{"property_id": cid, "reason": PENDING_REASON} for cid in ALL if cid not in CHECKS],
    }
    path = os.path.join(HERE, "MANIFEST.json")
    with open(path, "w") as f:
        json.dump(manifest, f, indent=1)
        f.write("\n")
    try:
        import jsonschema
        schema = json.load(open("/root/.vp/MANIFEST.schema.json"))
        jsonschema.validate(manifest, schema)
        print("MANIFEST.json valid;", len(checks), "checks")
    except ImportError:
        print("MANIFEST.json written (jsonschema not available for validation)")


if __name__ == "__main__":
    main()
