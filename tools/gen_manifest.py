#!/usr/bin/env python3
"""Generates /verif/MANIFEST.json from the table below (single source of truth)."""
import json, os, sys

HERE = os.path.dirname(os.path.dirname(os.path.abspath(__file__)))

# id -> (category, technique, level text, level note, design ref)
CHECKS = {
    "C01": ("exploration",
            "bounded exhaustive enumeration of programs x contexts x configurations against a reference evaluator",
            "Every formula of three explicit layers (all comparison atoms over value pools; all boolean structures with <=4 (quick) / <=5 (thorough) binary operators, 0-2 nots per operand and one optional parenthesised sub-chain; mixed comparison formulas with <=2 / <=3 operators) is parsed, compiled and executed by the real engine on every context of its pool under all four configurations (fields optional/mandatory x nil-not-equal true/false) and compared with an independent reference evaluator (association by splitting at the weakest operator). Exhaustive within the stated alphabet, so a wrong table entry, precedence or nil default has a witness inside the space.",
            "Reference evaluator harness/src/sem.rs + association builder checks/c01.rs; values outside the pools are not explored.",
            "DESIGN.md §5 C01"),
    "C02": ("exploration",
            "bounded exhaustive enumeration of index paths x container shapes x logical shapes against a reference evaluator",
            "Every index path of every length (indexes {0,1,3,65536,65537,u32::MAX,*}, keys {a,b,'',zz,*}) over every container field nested up to depth 3, with every applicable comparison and wrapper (not, parentheses, any/all in both argument forms), is executed on every shape-pool context (absent, empty, singleton, ragged, non-UTF-8 key), and the same path enumeration is run over function results (identity functions on six container types); every chain of <=2 (quick) / <=3 (thorough) operators over five array-valued operands of unequal lengths is observed through any(), all() and - as the exact result vector - through an identity function; value expressions compared as values or typed absences.",
            "Reference evaluator harness/src/sem.rs (path expansion, element-wise logic with truncation to the shortest operand); container values outside the shape pools are not explored.",
            "DESIGN.md §5 C02"),
    "C03": ("exploration",
            "bounded exhaustive enumeration of call terms x contexts against a reference evaluator sharing the harness functions",
            "Every call term up to nesting depth 2 (quick) / 3 (thorough) over the harness functions (pure functions, 0-2 optional parameters, literal-only / field-only parameters, the built-in concat, a definition with a per-call context) with arguments from fields, index paths, literals, nested calls and logical expressions, map-each over arrays and maps with memoised and re-evaluated extra arguments, is evaluated as a value expression (exact value or typed absence), inside comparisons and under quantifiers on 1152 contexts; the recorded invocations of the harness functions are compared with the model's (exactly, or - where the statement leaves the number of evaluations open - by per-record counts between the two admissible strategies).",
            "Harness functions are the same pure Rust code on both sides; evaluation order between different calls is not judged, only which invocations happen and with which arguments.",
            "DESIGN.md §5 C03"),
    "C04": ("exploration",
            "exhaustive finite matrices and bounded compositions of candidates judged against a reference typer, accepted ones executed",
            "Complete matrices (18 left-hand sides x 13 operators x 15 literal kinds; every index path up to length 3 over every field; operand shapes x logical operators for all 2- and 3-operand chains; every function x every argument tuple up to the arity bound from a 19-argument pool) and all compositions of 11 typed / ill-typed leaves under not, parentheses, and/or/xor, any/all and calls up to depth 2: the engine must accept exactly those the reference typer accepts; every accepted filter or value expression is compiled and executed on five contexts (mandatory fields set) without panic, with the reference value and - for value expressions - a deep type walk.",
            "Typing rules audited in DESIGN.md §5 C04 (harness/src/sem.rs); only sentences of the grammar are generated (operator/literal syntax pairs that no left-hand type admits are outside).",
            "DESIGN.md §5 C04"),
    "C05": ("exploration",
            "exhaustive enumeration of token strings and edit neighbourhoods; watchdog for non-termination; subprocess for size stressors",
            "Every string of <=4 (quick) / <=5 (thorough) tokens over a 48-token alphabet hitting every lexer entry (identifiers, brackets, quotes, raw-string delimiters, escapes, digits, separators, operators, multi-byte and control characters) and the complete single-edit neighbourhood (delete, duplicate, truncate, insert each of 36 characters at each position; thorough: double edits on the 15 shortest) of a 62-filter corpus covering every construct is parsed as filter and as value expression: no panic, returns within the cap (watchdog), every error formats, and its text designates a line of the input with a column range inside that line. About 2 800 size stressors (10^5-operand chains, 10^5-deep nestings of every construct, 10^5 list items / arguments / index accesses, raw strings with 255/256/10^5 hashes, giant identifiers and strings, 10^5 nested or unclosed groups / non-capturing groups / classes, stacked quantified groups and counted repetitions inside quoted and raw regex literals, and runs of 254..65537 copies of each of 14 characters behind each of 18 lexer states, to cross the width of any narrow counter) run on a 2 MiB stack in a subprocess. The harness is built with overflow checks and debug assertions, as the repository's own tests are.",
            "Error well-formedness is read from the Display text only; inputs outside the enumerated families are not explored.",
            "DESIGN.md §5 C05"),
    "C06": ("exploration",
            "exhaustive enumeration of literal families and edit neighbourhoods against reference lexers",
            "Integers (boundary values x decimal / 0x lower+upper / octal / zero-padded forms x 9 following contexts, all ordered range pairs), all 256 byte values in every escape, raw and hex-pair form, all byte strings of <=3 units over {a,\",\\,#,NUL,0xff,e-acute} in every expressing form, all raw bodies of <=4/5 over {a,\",#} x hash counts {0,1,2,3,255}, 12 addresses x textual forms, all ordered address range pairs, every CIDR prefix length 0..33 / 0..129 with and without host bits, index and key literals: the decoded value in the JSON (and typed AST) must be the rendered value, with the follower left unconsumed. Malformed classes and the complete single-edit neighbourhood of every integer and of 8 quoted strings are judged accept(value)/reject by reference lexers.",
            "Reference lexers harness/src/lexref.rs implement the documented forms; leniency of std / cidr address parsing is not contested.",
            "DESIGN.md §5 C06"),
    "C07": ("exploration",
            "bounded exhaustive enumeration of spellings per structure; engine JSON compared with a reference serialiser",
            "For every program of a 10k-filter corpus (every operator, index kind, call shape, literal form; all 1-3 operator boolean structures): every alias assignment of the first 8 operator occurrences x whitespace layouts (minimal, single, double, LF, CR/LF mix, each gap alone, Unicode whitespace around) must give equal ASTs, byte-identical JSON equal to the reference document, identical C-API hash and identical std Hash; the variant with every quoted string / regex literal written raw and vice versa is parsed too, and if its AST compares equal everything derived from it (JSON, C hash, Hash) must agree; the neighbours with one literal changed (the case of one letter, an integer or an array index by one) must differ in AST and JSON, and an index with 2^32 / 2^33 added must not give the same AST or document; serialising twice is identical; over the whole set the map JSON -> structure is injective.",
            "Reference serialiser harness/src/sem.rs::expr_json; whitespace alphabet as documented (space, CR, LF between tokens).",
            "DESIGN.md §5 C07"),
    "C08": ("model_checking",
            "explicit-state BFS (to fixpoint in the thorough tier) over context operations executed on real contexts, against a reference map",
            "States: up to two live contexts (on scheme A / its clone / a structurally identical scheme B) x four fields (Int, Bytes, Array(Int), Map(Array(Bytes))) x three values each - 13 203 reachable states in the thorough tier (fixpoint), depth 5 in the quick tier. Transitions: set through a field reference of each of the three schemes and by name with 5-7 values per field (well-typed, wrong primitive, right container / wrong element, wrong depth, wrong container), unknown names, clear, clone_with, new context on the twin scheme, take_with, borrow_with{0-2 inner sets}drop, borrow_with{1-2 inner sets} ended by a panic unwinding through the guard, drop. Every transition runs on real contexts rebuilt from the state; results (previous value / failure) and every observation (all reads, deep type walk, serialisation, equality, five filters and three value expressions of all three schemes on every context: value or scheme mismatch) are compared with the reference. Builders (Array::try_from_iter / try_from_vec, Map::try_from_iter) over 1 458 element-type / element-list combinations; the statically typed builders (TypedArray / TypedMap in 18 nestings up to three levels x 0..2 elements): full nested type, homogeneity at every level, accepted by exactly the field of that type out of 18.",
            "A context's state is what it serialises to plus its scheme; merged states are rebuilt by plain sets (validated at every BFS step).",
            "DESIGN.md §5 C08"),
    "C09": ("exploration",
            "exhaustive enumeration of all lists up to a length bound over small ordered domains x all probes",
            "All lists of <=4 (quick) / <=5 (thorough) items over all 29 ranges of a 7-point i64 domain (extremes, adjacent and far points) x 13 probes + absent; all lists of <=3 / <=4 items over 45 IPv4/IPv6 items (addresses, CIDRs where the range is one, explicit ranges, ::/0, mapped block) x 22 probes of both families; all byte-string lists of <=4 over 6 strings in three literal forms; all single and paired items out of 32 long byte strings (15..1000 bytes, around every power of two, two per length) x all of them as probes; long lists (all items in several orders, all-but-one); lists of 7..33 disjoint items with ranges at the low end, in the middle and at the high end; mapped and indexed left-hand sides. Oracle: exists item with lo <= x <= hi in x's family.",
            "Endpoints outside the small domains are not explored (seed adds one).",
            "DESIGN.md §5 C09"),
    "C10": ("exploration",
            "exhaustive enumeration of needles x anchors x haystacks in two processes (SIMD / scalar) against a naive oracle",
            "Needle lengths 0..=24 (quick) / 0..=40 (thorough) in four families over {a,b} (crossing the 0, 1, 2..16 and >16 specialisations), every byte value as a one-byte needle and the edge values 00/01/7f/80/fe/ff in 2-, 3- and 17-byte needles, every SIMD anchor position 1..len-1 through the cfg-guarded override hook plus 8 compilations with the engine's own random anchor, x haystacks: every {a,b}-string of length <=9/12 behind paddings {0,15,16,17,31,32,33}, the needle embedded at every offset of every total length <=72/300 in four fillers with three near-misses each, and degenerate haystacks (empty, shorter, equal, one byte off). Two worker processes (AVX2 enabled / WIREFILTER_USE_AVX2=0, verified through verif::simd_active) must both equal the naive window comparison.",
            "Hook: wirefilter::verif::set_anchor_override / simd_active. Without AVX2 hardware the SIMD half is reported as not covered.",
            "DESIGN.md §5 C10"),
    "C11": ("exploration",
            "exhaustive enumeration of grammar-generated regexes and all short wildcard patterns x all short values against reference matchers",
            "Every regex of <=5 (quick) / <=6 (thorough) nodes over {a,b,.,[ab],[^a],[\"],[\\]\"],[\\\"],[a\\\"],\\x61,a non-ASCII character,\",^,$} with ?,*,+,|,groups, in quoted and raw form, x every value of length <=3 over {a,b,A,\",LF,0xff,0xc3,0xa9}: result equals a backtracking reference matcher and the pattern stored in the JSON is the intended one; invalid regexes rejected; compiled-size limits {0,64,1024,65536,default} x dfa limits {0,default}, configured through ParserSettings and through the parser's setters (same decision, limits read back): no panic, unchanged answers, monotone acceptance. Every wildcard pattern of length <=4/5 over {a,A,b,*,\\,?} x both operators x raw/quoted x every value of length <=3/4 (incl. 0xff): validity (escapes, **), case rule and whole-value matching per the reference; star limits 0..4 through the setter and through ParserSettings.",
            "Reference matchers harness/src/rx.rs; regex features outside the subset are not explored.",
            "DESIGN.md §5 C11"),
    "C14": ("exploration",
            "exhaustive context families x six feeds against a reference serialiser / reader; complete single-mutation neighbourhoods of document trees",
            "Every context with <=2 fields deviating from a base over 21 fields of every type shape up to depth 3 (absent, empty / singleton / ragged containers, i64 extremes, non-UTF-8 bytes and map keys, v4/v6/mapped addresses) and single-field contexts, with empty and populated list-matcher state, on a scheme with lists and on its twin without: the serialisation must equal the reference document and, fed back as str, slice, reader, owned Value, &Value and through the C API, give an equal context, identical re-serialisation, the same values and the same answers for ~190 filters. Bad JSON: every single mutation of three documents' trees (each node replaced by 15 other JSON values, wrapped, unwrapped, deleted, keys renamed / duplicated / reordered, elements duplicated), every byte-prefix truncation, `$lists` sections with type descriptors of 0..130 layers and malformed entries: never a panic, rejected whenever the reference reading says it cannot denote the declared types, and after every call each stored value passes a deep type walk.",
            "Reference document builder and reader in checks/c14.rs (dual encodings included). A value tree has no key order. Known finding: `$lists` through a serde_json::Value (see known_findings.jsonl).",
            "DESIGN.md §5 C14"),
    "C15": ("exploration",
            "exhaustive enumeration of types by layer string; independent bit packing and JSON; scheme families through five feeds",
            "Every type with <=9 (quick) / <=13 (thorough) container layers x 4 primitives (4 092 / 65 532 types) and structured families up to 32 layers: Type <-> CompoundType <-> C type conversions are mutual inverses, the C constructors composed layer by layer equal CType::from(Type) bit for bit and equal an independently computed bit string, JSON equals the reference and reads back through from_str / from_slice / from_reader / Value / &Value and the C serialiser. Descriptors of 33..130 layers: an error or (33) the faithful type - never a panic, never a different type. Schemes: every ordered selection of <=3 of 8 hostile names (dotted, long, non-ASCII, quote, backslash, `$lists`) x type / optional variants and a 40-field scheme through five feeds (names, order, types, optionality, indexes, identical re-serialisation); duplicate names refused by every text feed; malformed documents never panic.",
            "Bit layout as documented in DESIGN.md §5 C15; field order through a Value tree is compared as a set (serde_json::Value sorts keys).",
            "DESIGN.md §5 C15"),
    "C16": ("model_checking",
            "BFS over registration histories replayed on the real builder, states deduplicated on the observed registry",
            "All sequences of up to 5 (quick) / 6 (thorough) operations out of 21 (add_field / add_optional_field / add_function over six colliding names x, x.y, x.y.z, X, xy, x_y; three list registrations, one of them for an already used type): each transition replays the history on a fresh real SchemeBuilder, compares every add_* result (success / which kind already holds the name / list redefinition) and the built scheme's fields(), functions(), lists(), counts and indexes with the reference registry; at every node up to length 4 (5) the scheme is interrogated with 19 names (prefixes, extensions, case variants, blanks) through get_field, get_function, get_list, uses and by parsing `name == 1`, `name == \"a\"`, `name(\"a\") == \"a\"`; scheme equality only between clones. States are merged on the built scheme's observable registry together with the kinds of refusals met so far (a refused call must change nothing, so the state after a refusal is not merged with the state before it); get_list per type is checked at every node.",
            "Registry states are merged when the built scheme exposes the same fields / functions / lists with the same indexes.",
            "DESIGN.md §5 C16"),
    "C17": ("model_checking",
            "exhaustive registrations x programs x names with recorded matcher queries; BFS over matcher-state histories on real contexts",
            "All 16 registration orders / subsets of a harness list (named sets, records every query) for Int, Ip, Bytes (matchers are routed by registration index; the same names hold different contents per type) x every left-hand-side shape (field, index path, [*] paths, call, call over [*]) x 7 list names x 36 contexts: results equal set membership per element, the recorded (name, value) queries are queries the reference makes (exactly the reference's where the filter leaves no freedom of evaluation order), types without a list are rejected at parse time; every list name of length <=3 over {a,z,0,_,.} plus an invalid set in four syntactic positions; built-in always / never lists on every shape, also on deserialised, cloned and cleared-and-refilled contexts; BFS (depth 5 / 7) over {insert into a named set, set / unset a field, clear, serialise -> deserialise into a fresh context, clone} for three registrations, all in-list filters evaluated and the matcher state read back through both read accessors (by list reference, by type) after every step, inserts alternating between the two write accessors, every state reached by replaying its history on one live context, dedup on the serialised context; every sequence of <=4 (quick) / <=5 (thorough) registrations of always / never lists for three types, refused duplicates included, then `x in $name` per type answered by the accepted registration.",
            "The harness matcher's own (de)serialisation is serde-derived; state key = context serialisation.",
            "DESIGN.md §5 C17"),
    "C18": ("model_checking",
            "stateless exploration of the real code under a controlled cooperative scheduler: preemption-bounded exhaustive DFS over schedules",
            "About 220 (quick) / 280 (thorough) scenarios of 2-3 real threads x 1-2 operations (execute a shared compiled filter / value expression, or parse + compile + execute) over 12 filters (regex, wildcard, SIMD contains, in $list with a harness matcher, map-each with memoised and re-evaluated arguments, nested harness calls, in {...}, three and/or combinators whose deciding operand differs between contexts: for these every (warm-up context, thread-0 context, thread-1 context) triple) and 4 contexts with different values, with sequential warm-ups, every execution starting from freshly compiled filters: every schedule with at most 2 (quick) / 3 (thorough) preemptions at the granularity of the cfg-guarded engine hooks and of every harness function / matcher call is executed to completion and every call's result compared with the sequential baseline. One schedule is replayed twice (identical traces required); a deliberately racy harness function is the canary (must show > 1 outcome); first use of lazily initialised state is explored in a fresh process. Sequential determinism: forward / reverse / recompiled sweeps, a context changed in place between executions (long-lived filter against a fresh compilation), and every ordered pair of eleven twin filters (one long pattern under wildcard / strict wildcard / matches / contains / == / in {}) compiled with the first member alive, on the same and on a second scheme. Auxiliary and not deciding (sampling): free-running barrier-released threads (4/16/64) on warmed filters, and 2/4/16 threads racing the first executions of freshly compiled large filters (4000-item sets, a 400-way alternation).",
            "Hooks: wirefilter::verif::set_yield_hook (sites filter.execute, filter_value.execute, ctx.get_field_value, regex.is_match, in_list.match_value, contains.select_searcher). No preemption inside dependency code between points; weak-memory effects invisible.",
            "DESIGN.md §5 C18"),
    "C19": ("model_checking",
            "exhaustive enumeration of step sequences interpreted for real on fresh threads against a reference machine; all interleavings of two threads under the controlled scheduler",
            "Every sequence of <=5 (quick) / <=6 (thorough) steps over {enable, disable, enter catch_panic, return, panic with a unique message, install hook again, set fallback Continue, get backtrace} (37 449 / 299 593 sequences) is interpreted on a fresh thread with real catch_panic frames and real unwinding (the interpreter's outermost catch_unwind plays `outside catch_panic`), with a sentinel hook installed before the catcher's: frame results (value / error text containing the message), nesting level after every step (cfg-guarded accessor), sentinel reception of uncaught panics and the recorded backtrace are compared with the reference machine; five deeper structured sequences; histories up to length 8 (quick) / 10 (thorough) by breadth-first search with one representative history per abstract catcher state (enabled flag, stack of open frames tagged catching / transparent, message recorded), every transition interpreted for real; every pair of sequences of length <=2 (thorough: <=3 x <=2) over the five state-changing steps, plus `enable` + two steps opening a frame, on two threads under every interleaving at step granularity with an additional scheduling point in every frame a panic unwinds through: each thread's observations equal its single-thread reference.",
            "Hook: wirefilter::verif::panic_catcher_level. Fallback mode Abort (aborts by design) and the first-installation race of the hook are outside the property's precondition.",
            "DESIGN.md §5 C19"),
    "C20": ("model_checking",
            "parity enumeration over a filter corpus; exhaustive call histories with the last-error text as state; all interleavings of two threads at call granularity",
            "Every corpus filter well-typed in the C universe and 19 error inputs (NUL bytes, invalid UTF-8, unknown fields, wrong types, bad literals) through the exported functions next to the Rust API: parse status, error text (modulo NUL -> 0x1a), AST JSON, hash = FNV of the JSON, uses / uses_list for every field and unknown names, compile, match and context JSON on 3 contexts filled through the typed and JSON setters. Every sequence of <=3 (quick) / <=4 (thorough) calls over 17 call kinds (succeeding calls, 12 kinds of failing calls, clear): each failure is reported through status / boolean and the calling thread's last-error equals the Rust API's error text, is NUL-terminated without interior NUL, is replaced by the next failure, untouched by successes and cleared by clear; the same for every sequence of <=2 (quick) / <=3 (thorough) calls over the complete failure-path alphabet (47 call kinds: each of the six value setters on ok / unregistered field / other type / non-UTF-8 name, bad names for add-field, uses, uses_list, unknown field in and truncation of a context document). Two threads x 2 calls under every interleaving. A harness function panicking in check_param / compile / execution with hook installed and catcher enabled gives Status::Panic with the message in last-error and no unwinding.",
            "The exported functions are called from the rlib; functions are registered through the wrapped Rust builder.",
            "DESIGN.md §5 C20"),
    "C12": ("exploration",
            "exhaustive program corpus x every field name; oracle from the generating structure",
            "Every program of the sole-occurrence family (the only mention of a field at each AST position kind - lhs, index base, 1st/2nd/3rd call argument at depth 1-3, logical argument, quantifier argument in both forms, chain operand left/middle/right, under not/parentheses - inside or outside the lhs of an `in $list`, including `in $list` below plain call arguments 2-3 calls deep) and of the shared corpus x every field of the scheme and 7 non-field names, for uses and uses_list, on FilterAst and FilterValueAst.",
            "Occurrences computed from the generating structure (ast::fields_of / list_fields_of).",
            "DESIGN.md §5 C12"),
    "C13": ("exploration",
            "exhaustive enumeration of nesting-construct sequences x limits x placements; subprocess for deep recursion",
            "Every applicable sequence of the seven nesting constructs ((), not, !, any, all, call fb/fa, hex-named call fade) of length <=5 (quick) / <=7 (thorough) around a boolean and a boolean-array leaf x 6 placements (sole, left/right/middle chain operand, first/second call argument) x every limit 0..=7/8, configured both through set_max_nesting_depth and through ParserSettings: accepted iff reference nesting <= limit; limits 16, 64, 128 (also through the default parser), 129, 200, 255, 256, 257, 300, 1000 with pure and cyclic shapes at d-1, d, d+1, and 65535 with 65534..70000 nested (, not, !; value expressions with call nests; six depth-200 filters are parsed, serialised, hashed (C API), compiled, executed against the reference value and dropped on a 1 MiB stack in a subprocess.",
            "Nesting defined by ast::depth; rejection may carry any error kind.",
            "DESIGN.md §5 C13"),
}

PENDING_REASON = "check not built yet in this session; planned in DESIGN.md (bounded exhaustive formulation exists)"

ALL = ["C%02d" % i for i in range(1, 21)]


def main():
    checks = []
    for cid in ALL:
        if cid not in CHECKS:
            continue
        cat, tech, text, note, ref = CHECKS[cid]
        checks.append({
            "property_id": cid,
            "quick_cmd": f"./run.sh {cid} quick",
            "thorough_cmd": f"./run.sh {cid} thorough",
            "evidence_file": f"/verif/evidence/{cid}.json",
            "replay_cmd_template": "./run.sh replay {path}",
            "engine": "wfv",
            "level_claimed": {"category": cat, "text": text, "design_ref": ref},
            "level_note": note,
            "technique": tech,
        })
    manifest = {
        "version": 1,
        "setup_cmd": "./run.sh build",
        "hooks": {
            "guard": "cargo feature `verif-hooks` of the wirefilter-engine crate (cfg(feature = \"verif-hooks\"))",
            "enable": "the harness crate depends on wirefilter-engine with features = [\"verif-hooks\"] (path /repo/engine); wirefilter-ffi is unified onto the same build",
            "baseline_off_cmd": "cd /repo && cargo nextest run --workspace --no-fail-fast --offline",
            "source_commits": ["abf2c90"],
            "add_only": True,
        },
        "engines": [{
            "name": "wfv",
            "path": "/verif/harness",
            "serves_properties": [c["property_id"] for c in checks],
            "kind_free_text": "purpose-built explicit-state / bounded-exhaustive explorer in Rust running the real wirefilter code against reference models (program x input enumeration, BFS over operation histories with state dedup, preemption-bounded DFS over schedules under a cooperative scheduler)",
        }],
        "checks": checks,
        "notes": "Exit protocol: 0 held / 1 violation (VIOLATION property=<id> replay=<path>) / 2 machinery failure. Known findings: /verif/known_findings.jsonl. Seeded defects and which check catches them: /verif/seeded/ and DESIGN.md §9.",
        "not_applicable": [{"property_id": cid, "reason": PENDING_REASON} for cid in ALL if cid not in CHECKS],
    }
    path = os.path.join(HERE, "MANIFEST.json")
    with open(path, "w") as f:
        json.dump(manifest, f, indent=1)
        f.write("\n")
    try:
        import jsonschema
        schema = json.load(open("/root/.vp/MANIFEST.schema.json"))
        jsonschema.validate(manifest, schema)
        print("MANIFEST.json valid;", len(checks), "checks")
    except ImportError:
        print("MANIFEST.json written (jsonschema not available for validation)")


if __name__ == "__main__":
    main()
