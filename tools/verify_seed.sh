#!/bin/bash
# usage: tools/verify_seed.sh <name> <dir-with-patch.diff-and-seed_demo.rs>
# Confirms in a scratch worktree: patch applies, existing suite passes (156) with it,
# demo fails with it and passes without it. Writes <dir>/verify.log and prints a verdict.
set -u
name="$1"; dir="$2"
wt=/tmp/wt/verify_$name
log="$dir/verify.log"
: > "$log"
git -C /repo worktree remove --force "$wt" 2>/dev/null
git -C /repo worktree add -q --detach "$wt" HEAD || exit 2
cleanup() { git -C /repo worktree remove --force "$wt" 2>/dev/null; rm -rf "$wt"; }
trap cleanup EXIT
cd "$wt"
export CARGO_TARGET_DIR=/tmp/wt/verify_target
git apply "$dir/patch.diff" >>"$log" 2>&1 || { echo "$name: PATCH-DOES-NOT-APPLY"; exit 1; }
demo_dst=engine/tests/seed_demo.rs
if grep -q "wirefilter_ffi" "$dir/seed_demo.rs"; then demo_dst=ffi/tests/seed_demo.rs; fi
pkg=wirefilter-engine; [ "$demo_dst" = ffi/tests/seed_demo.rs ] && pkg=wirefilter-ffi
echo "== suite with patch" >>"$log"
cargo nextest run --workspace --no-fail-fast --offline >>"$log" 2>&1
suite=$(grep -E "^\s+Summary" "$log" | tail -1)
mkdir -p "$(dirname $demo_dst)"; cp "$dir/seed_demo.rs" "$demo_dst"
echo "== demo with patch" >>"$log"
cargo test --offline -p $pkg --test seed_demo >>"$log" 2>&1; with=$?
git apply -R "$dir/patch.diff" >>"$log" 2>&1
echo "== demo without patch" >>"$log"
cargo test --offline -p $pkg --test seed_demo >>"$log" 2>&1; without=$?
echo "$name: suite[$suite] demo_with_patch_rc=$with demo_without_patch_rc=$without"
if echo "$suite" | grep -q "156 passed" && ! echo "$suite" | grep -q "failed" && [ $with -ne 0 ] && [ $without -eq 0 ]; then
  echo "$name: CONFIRMED"; exit 0
else
  echo "$name: NOT-CONFIRMED (see $log)"; exit 1
fi
