#!/bin/bash
# usage: tools/run_all.sh [quick|thorough]   runs every check, prints one line each
cd /verif
tier="${1:-quick}"
for i in $(seq -w 1 20); do
  id="C$i"
  s=$(date +%s.%N)
  out=$(./run.sh "$id" "$tier" 2>&1); rc=$?
  e=$(date +%s.%N)
  printf "%s rc=%d %.1fs  %s\n" "$id" "$rc" "$(echo "$e - $s" | bc)" "$(echo "$out" | grep -E "^\[$id\] tier" | tail -1)"
  if [ $rc -ne 0 ]; then echo "$out" | grep -E "VIOLATION|MACHINERY|->" | head -5; fi
done
