//! Reference matchers: a backtracking regex matcher over bytes for the subset
//! used by the checks, and the wildcard semantics.

#[derive(Clone, Debug)]
enum Node {
    Byte(u8),
    Any,                       // any byte except \n
    Class(Vec<(u8, u8)>, bool), // ranges, negated
    Start,
    End,
    Group(Box<Node>),
    Cat(Vec<Node>),
    Alt(Vec<Node>),
    Rep(Box<Node>, usize, Option<usize>),
}

struct P<'a> {
    s: &'a [u8],
    i: usize,
}

impl<'a> P<'a> {
    fn peek(&self) -> Option<u8> {
        self.s.get(self.i).copied()
    }
    fn alt(&mut self) -> Result<Node, String> {
        let mut alts = vec![self.cat()?];
        while self.peek() == Some(b'|') {
            self.i += 1;
            alts.push(self.cat()?);
        }
        Ok(if alts.len() == 1 { alts.pop().unwrap() } else { Node::Alt(alts) })
    }
    fn cat(&mut self) -> Result<Node, String> {
        let mut items = Vec::new();
        while let Some(c) = self.peek() {
            if c == b'|' || c == b')' {
                break;
            }
            let atom = self.atom()?;
            let atom = self.quant(atom)?;
            items.push(atom);
        }
        Ok(Node::Cat(items))
    }
    fn quant(&mut self, atom: Node) -> Result<Node, String> {
        let mut node = atom;
        loop {
            match self.peek() {
                Some(b'?') => {
                    self.i += 1;
                    node = Node::Rep(Box::new(node), 0, Some(1));
                }
                Some(b'*') => {
                    self.i += 1;
                    node = Node::Rep(Box::new(node), 0, None);
                }
                Some(b'+') => {
                    self.i += 1;
                    node = Node::Rep(Box::new(node), 1, None);
                }
                _ => return Ok(node),
            }
            // the generator never stacks quantifiers; refuse rather than guess laziness
            if matches!(self.peek(), Some(b'?' | b'*' | b'+')) {
                return Err("stacked quantifier".into());
            }
        }
    }
    fn hex2(&mut self) -> Result<u8, String> {
        let h = self.s.get(self.i..self.i + 2).ok_or("short \\x")?;
        let v = u8::from_str_radix(std::str::from_utf8(h).map_err(|_| "hex")?, 16).map_err(|_| "hex")?;
        self.i += 2;
        Ok(v)
    }
    fn escape(&mut self) -> Result<u8, String> {
        // after the backslash
        let c = self.peek().ok_or("dangling backslash")?;
        self.i += 1;
        match c {
            b'x' => self.hex2(),
            b'n' => Ok(b'\n'),
            b't' => Ok(b'\t'),
            b'r' => Ok(b'\r'),
            c if c.is_ascii_punctuation() => Ok(c),
            _ => Err(format!("unsupported escape \\{}", c as char)),
        }
    }
    fn atom(&mut self) -> Result<Node, String> {
        let c = self.peek().ok_or("eof")?;
        self.i += 1;
        match c {
            b'.' => Ok(Node::Any),
            b'^' => Ok(Node::Start),
            b'$' => Ok(Node::End),
            b'(' => {
                let inner = self.alt()?;
                if self.peek() != Some(b')') {
                    return Err("unbalanced (".into());
                }
                self.i += 1;
                Ok(Node::Group(Box::new(inner)))
            }
            b'[' => {
                let mut neg = false;
                if self.peek() == Some(b'^') {
                    neg = true;
                    self.i += 1;
                }
                let mut ranges = Vec::new();
                let mut first = true;
                loop {
                    let c = self.peek().ok_or("unterminated class")?;
                    self.i += 1;
                    let lo = match c {
                        b']' if !first => break,
                        c if c >= 0x80 => return Err("non-ASCII character in a class (outside the subset)".into()),
                        b'\\' => self.escape()?,
                        c => c,
                    };
                    first = false;
                    if self.peek() == Some(b'-') && self.s.get(self.i + 1).is_some_and(|&n| n != b']') {
                        self.i += 1;
                        let c2 = self.peek().ok_or("unterminated class")?;
                        self.i += 1;
                        let hi = if c2 == b'\\' { self.escape()? } else { c2 };
                        ranges.push((lo, hi));
                    } else {
                        ranges.push((lo, lo));
                    }
                }
                Ok(Node::Class(ranges, neg))
            }
            b'\\' => Ok(Node::Byte(self.escape()?)),
            b'?' | b'*' | b'+' | b')' | b'|' | b'{' | b'}' => Err("unexpected metacharacter".into()),
            // a non-ASCII character of the pattern text is one atom denoting its UTF-8 bytes
            c if c >= 0x80 => {
                let len = if c >= 0xf0 { 4 } else if c >= 0xe0 { 3 } else { 2 };
                let bytes = self.s.get(self.i - 1..self.i - 1 + len).ok_or("truncated character")?;
                self.i += len - 1;
                Ok(Node::Group(Box::new(Node::Cat(bytes.iter().map(|b| Node::Byte(*b)).collect()))))
            }
            c => Ok(Node::Byte(c)),
        }
    }
}

fn parse(pat: &str) -> Result<Node, String> {
    let mut p = P { s: pat.as_bytes(), i: 0 };
    let n = p.alt()?;
    if p.i != p.s.len() {
        return Err("trailing input".into());
    }
    Ok(n)
}

/// matches `node` at position `i` of `h`, calling `k` with each possible end position
fn m(node: &Node, h: &[u8], i: usize, k: &mut dyn FnMut(usize) -> bool) -> bool {
    match node {
        Node::Byte(b) => i < h.len() && h[i] == *b && k(i + 1),
        Node::Any => i < h.len() && h[i] != b'\n' && k(i + 1),
        Node::Class(ranges, neg) => {
            i < h.len() && (ranges.iter().any(|(lo, hi)| *lo <= h[i] && h[i] <= *hi) != *neg) && k(i + 1)
        }
        Node::Start => i == 0 && k(i),
        Node::End => i == h.len() && k(i),
        Node::Group(n) => m(n, h, i, k),
        Node::Cat(items) => cat(items, h, i, k),
        Node::Alt(alts) => alts.iter().any(|a| m(a, h, i, k)),
        Node::Rep(n, min, max) => rep(n, *min, *max, h, i, 0, k),
    }
}

fn cat(items: &[Node], h: &[u8], i: usize, k: &mut dyn FnMut(usize) -> bool) -> bool {
    match items.split_first() {
        None => k(i),
        Some((first, rest)) => m(first, h, i, &mut |j| cat(rest, h, j, k)),
    }
}

fn rep(
    n: &Node,
    min: usize,
    max: Option<usize>,
    h: &[u8],
    i: usize,
    count: usize,
    k: &mut dyn FnMut(usize) -> bool,
) -> bool {
    if max.is_none_or(|mx| count < mx) {
        // one more iteration (must make progress to avoid infinite loops on empty matches)
        if m(n, h, i, &mut |j| j > i && rep(n, min, max, h, j, count + 1, k)) {
            return true;
        }
        // an empty iteration counts towards the minimum
        if count < min && m(n, h, i, &mut |j| j == i && rep(n, min, max, h, j, count + 1, k)) {
            return true;
        }
    }
    count >= min && k(i)
}

/// Unanchored search: does `pat` match somewhere in `h`? Panics on patterns outside the subset.
pub fn search(pat: &str, h: &[u8]) -> bool {
    let node = parse(pat).unwrap_or_else(|e| panic!("reference regex cannot parse {pat:?}: {e}"));
    (0..=h.len()).any(|i| m(&node, h, i, &mut |_| true))
}

pub fn supported(pat: &str) -> bool {
    parse(pat).is_ok()
}

// ---------------------------------------------------------------------------
// Wildcards

#[derive(Clone, Debug, PartialEq, Eq)]
pub enum WTok {
    Star,
    Byte(u8),
}

/// Valid iff every `\` is followed by `*` or `\`. `?` is an ordinary character.
pub fn wildcard_tokens(p: &[u8]) -> Option<Vec<WTok>> {
    let mut out = Vec::new();
    let mut i = 0;
    while i < p.len() {
        match p[i] {
            b'\\' => match p.get(i + 1) {
                Some(b'*') => {
                    out.push(WTok::Byte(b'*'));
                    i += 2;
                }
                Some(b'\\') => {
                    out.push(WTok::Byte(b'\\'));
                    i += 2;
                }
                _ => return None,
            },
            b'*' => {
                out.push(WTok::Star);
                i += 1;
            }
            c => {
                out.push(WTok::Byte(c));
                i += 1;
            }
        }
    }
    Some(out)
}

/// `Ok(())` if the pattern is acceptable under the star limit.
pub fn wildcard_valid(p: &[u8], star_limit: usize) -> bool {
    let Some(t) = wildcard_tokens(p) else { return false };
    let stars = t.iter().filter(|x| **x == WTok::Star).count();
    if stars > star_limit {
        return false;
    }
    !t.windows(2).any(|w| w[0] == WTok::Star && w[1] == WTok::Star)
}

fn wm(t: &[WTok], h: &[u8], strict: bool) -> bool {
    match t.split_first() {
        None => h.is_empty(),
        Some((WTok::Star, rest)) => (0..=h.len()).any(|k| wm(rest, &h[k..], strict)),
        Some((WTok::Byte(b), rest)) => {
            !h.is_empty()
                && (h[0] == *b || (!strict && h[0].eq_ignore_ascii_case(b)))
                && wm(rest, &h[1..], strict)
        }
    }
}

/// Whole-value match. Panics if the pattern is not valid.
pub fn wildcard_match(p: &[u8], h: &[u8], strict: bool) -> bool {
    let t = wildcard_tokens(p).expect("valid wildcard");
    wm(&t, h, strict)
}
