//! Evidence files, violation reporting, known findings, exit protocol.

use serde_json::{Map, Value, json};
use std::collections::BTreeMap;
use std::path::PathBuf;
use std::sync::Mutex;
use std::sync::atomic::{AtomicU64, Ordering};
use std::time::Instant;

pub fn verif_dir() -> PathBuf {
    std::env::var_os("WFV_VERIF_DIR")
        .map(PathBuf::from)
        .unwrap_or_else(|| PathBuf::from("/verif"))
}

#[derive(Clone, Copy, PartialEq, Eq, Debug)]
pub enum Tier {
    Quick,
    Thorough,
}

impl Tier {
    pub fn name(self) -> &'static str {
        match self {
            Tier::Quick => "quick",
            Tier::Thorough => "thorough",
        }
    }
    pub fn pick<T>(self, quick: T, thorough: T) -> T {
        match self {
            Tier::Quick => quick,
            Tier::Thorough => thorough,
        }
    }
}

#[derive(Clone, Debug)]
pub struct Violation {
    /// Stable identifier of *what* fails (used to match known findings).
    pub key: String,
    /// Human readable one-liner.
    pub what: String,
    /// Replayable case (interpreted by the check's `replay`).
    pub case: Value,
}

/// One run of one check.
pub struct Run {
    pub id: &'static str,
    pub level: &'static str,
    pub tier: Tier,
    pub seed: u64,
    start: Instant,
    pub evaluations: AtomicU64,
    counters: Mutex<BTreeMap<String, u64>>,
    samples: Mutex<Vec<Value>>,
    violations: Mutex<Vec<Violation>>,
    violation_count: AtomicU64,
    extra: Mutex<Map<String, Value>>,
    assumptions: Mutex<Vec<String>>,
    notes: Mutex<Vec<String>>,
    /// When set, the shared program checkers judge acceptance, panics and static types only:
    /// a result that differs from the reference semantics is counted, not reported (that
    /// judgement belongs to the properties about semantics, C01-C03).
    pub types_only: std::sync::atomic::AtomicBool,
}

pub const MAX_KEPT_VIOLATIONS: usize = 25;

impl Run {
    pub fn new(id: &'static str, level: &'static str, tier: Tier, seed: u64) -> Self {
        Run {
            id,
            level,
            tier,
            seed,
            start: Instant::now(),
            evaluations: AtomicU64::new(0),
            counters: Mutex::new(BTreeMap::new()),
            samples: Mutex::new(Vec::new()),
            violations: Mutex::new(Vec::new()),
            violation_count: AtomicU64::new(0),
            extra: Mutex::new(Map::new()),
            assumptions: Mutex::new(Vec::new()),
            notes: Mutex::new(Vec::new()),
            types_only: std::sync::atomic::AtomicBool::new(false),
        }
    }

    #[inline]
    pub fn eval(&self, n: u64) {
        self.evaluations.fetch_add(n, Ordering::Relaxed);
    }

    pub fn count(&self, name: &str, n: u64) {
        *self.counters.lock().unwrap().entry(name.to_string()).or_insert(0) += n;
    }

    pub fn counter(&self, name: &str) -> u64 {
        self.counters.lock().unwrap().get(name).copied().unwrap_or(0)
    }

    pub fn merge_counters(&self, local: &BTreeMap<&'static str, u64>) {
        let mut c = self.counters.lock().unwrap();
        for (k, v) in local {
            *c.entry((*k).to_string()).or_insert(0) += *v;
        }
    }

    /// Keeps up to `cap` samples.
    pub fn sample(&self, cap: usize, v: impl FnOnce() -> Value) {
        let mut s = self.samples.lock().unwrap();
        if s.len() < cap {
            s.push(v());
        }
    }

    pub fn set(&self, key: &str, v: Value) {
        self.extra.lock().unwrap().insert(key.to_string(), v);
    }

    pub fn assume(&self, s: &str) {
        self.assumptions.lock().unwrap().push(s.to_string());
    }

    pub fn note(&self, s: String) {
        eprintln!("[{}] {}", self.id, s);
        self.notes.lock().unwrap().push(s);
    }

    pub fn violation(&self, key: String, what: String, case: Value) {
        self.violation_count.fetch_add(1, Ordering::Relaxed);
        let mut v = self.violations.lock().unwrap();
        // keep distinct keys first; cap the total
        let wanted = std::env::var("WFV_WANT_KEY").map(|k| k == key).unwrap_or(false);
        if (v.len() < MAX_KEPT_VIOLATIONS || wanted) && !v.iter().any(|x| x.key == key) {
            v.push(Violation { key, what, case });
        }
    }

    pub fn violations_seen(&self) -> u64 {
        self.violation_count.load(Ordering::Relaxed)
    }

    pub fn elapsed(&self) -> f64 {
        self.start.elapsed().as_secs_f64()
    }

    /// Writes the evidence file, prints the protocol lines, returns the exit code.
    ///
    /// `distinct_nontrivial` and `rule` are given by the check; `vacuity` lists
    /// (counter, minimum) pairs that must hold or the run is a machinery failure.
    pub fn finish(
        &self,
        distinct_nontrivial: u64,
        rule: &str,
        exhaustive: bool,
        vacuity: &[(&str, u64)],
    ) -> i32 {
        let known = load_known_findings(self.id);
        let violations = self.violations.lock().unwrap().clone();
        let mut unlisted = Vec::new();
        let mut listed = Vec::new();
        for v in &violations {
            if known.iter().any(|k| k == &v.key) {
                listed.push(v.clone());
            } else {
                unlisted.push(v.clone());
            }
        }
        let mut exit = 0;
        for v in &listed {
            println!("KNOWN-FINDING: property={} {} ({})", self.id, v.key, v.what);
        }
        let dir = verif_dir().join("replays").join(self.id);
        let _ = std::fs::create_dir_all(&dir);
        for (i, v) in unlisted.iter().enumerate() {
            let path = dir.join(format!("{}_{}_{}.json", self.tier.name(), self.seed, i));
            let doc = json!({
                "property": self.id,
                "tier": self.tier.name(),
                "seed": self.seed,
                "key": v.key,
                "what": v.what,
                "case": v.case,
                "replay": format!("./run.sh replay {}", path.display()),
            });
            let _ = std::fs::write(&path, serde_json::to_string_pretty(&doc).unwrap());
            if std::env::var("WFV_QUIET").is_err() {
                println!("VIOLATION property={} replay={}", self.id, path.display());
                eprintln!("  -> {}: {}", v.key, v.what);
            }
            exit = 1;
        }

        let counters = self.counters.lock().unwrap().clone();
        let mut vacuous = Vec::new();
        for (name, min) in vacuity {
            let got = counters.get(*name).copied().unwrap_or(0);
            if got < *min {
                vacuous.push(format!("{name}={got} (< {min})"));
            }
        }

        let evaluations = self.evaluations.load(Ordering::Relaxed);
        let mut coverage = Map::new();
        coverage.insert("evaluations".into(), json!(evaluations));
        coverage.insert("distinct_nontrivial".into(), json!(distinct_nontrivial));
        coverage.insert("rule".into(), json!(rule));
        coverage.insert("exhaustive".into(), json!(exhaustive));
        let samples = self.samples.lock().unwrap().clone();
        coverage.insert("samples".into(), Value::Array(samples));
        coverage.insert(
            "counters".into(),
            Value::Object(counters.iter().map(|(k, v)| (k.clone(), json!(v))).collect()),
        );
        for (k, v) in self.extra.lock().unwrap().iter() {
            coverage.insert(k.clone(), v.clone());
        }
        let notes = self.notes.lock().unwrap().clone();
        if !notes.is_empty() {
            coverage.insert("notes".into(), json!(notes));
        }
        let doc = json!({
            "property_id": self.id,
            "tier": self.tier.name(),
            "seed": self.seed,
            "level": self.level,
            "coverage": Value::Object(coverage),
            "assumptions": self.assumptions.lock().unwrap().clone(),
            "wall_s": (self.elapsed() * 1000.0).round() / 1000.0,
            "violations": self.violations_seen(),
            "known_findings_reobserved": listed.iter().map(|v| v.key.clone()).collect::<Vec<_>>(),
        });
        let evdir = verif_dir().join("evidence");
        let _ = std::fs::create_dir_all(&evdir);
        let path = evdir.join(format!("{}.json", self.id));
        std::fs::write(&path, serde_json::to_string_pretty(&doc).unwrap() + "\n")
            .expect("write evidence");
        // a copy of a thorough run's record that survives the next quick run
        if doc["tier"] == "thorough" {
            let tdir = evdir.join("thorough");
            let _ = std::fs::create_dir_all(&tdir);
            let _ = std::fs::write(tdir.join(format!("{}.json", self.id)), serde_json::to_string_pretty(&doc).unwrap() + "\n");
        }

        if exit == 0 && !vacuous.is_empty() {
            eprintln!(
                "MACHINERY-FAILURE property={} vacuity guard failed: {}",
                self.id,
                vacuous.join(", ")
            );
            return 2;
        }
        eprintln!(
            "[{}] tier={} evaluations={} distinct_nontrivial={} violations={} wall={:.1}s exit={}",
            self.id,
            self.tier.name(),
            evaluations,
            distinct_nontrivial,
            self.violations_seen(),
            self.elapsed(),
            exit
        );
        exit
    }
}

/// Keys of the findings listed as `known` for this property.
/// `fixed` entries suppress nothing.
pub fn load_known_findings(id: &str) -> Vec<String> {
    let path = verif_dir().join("known_findings.jsonl");
    let Ok(text) = std::fs::read_to_string(path) else {
        return Vec::new();
    };
    let mut out = Vec::new();
    for line in text.lines() {
        let line = line.trim();
        if line.is_empty() || line.starts_with('#') {
            continue;
        }
        if let Ok(v) = serde_json::from_str::<Value>(line) {
            if v["status"] == "known" && v["property"] == id {
                if let Some(k) = v["key"].as_str() {
                    out.push(k.to_string());
                }
            }
        }
    }
    out
}

/// Runs `f(i)` for i in 0..n on up to `threads` worker threads (work stealing by atomic counter).
pub fn par_for(n: usize, threads: usize, f: impl Fn(usize) + Sync) {
    let next = std::sync::atomic::AtomicUsize::new(0);
    let threads = threads.max(1).min(n.max(1));
    std::thread::scope(|s| {
        for _ in 0..threads {
            s.spawn(|| {
                loop {
                    let i = next.fetch_add(1, Ordering::Relaxed);
                    if i >= n {
                        break;
                    }
                    f(i);
                }
            });
        }
    });
}

pub fn ncpu() -> usize {
    std::env::var("WFV_THREADS")
        .ok()
        .and_then(|s| s.parse().ok())
        .unwrap_or_else(|| std::thread::available_parallelism().map(|n| n.get()).unwrap_or(4))
}

thread_local! {
    static GUARD_DEPTH: std::cell::Cell<u32> = const { std::cell::Cell::new(0) };
}

/// Runs a closure catching panics; returns Err(message) on panic.
pub fn guarded<T>(f: impl FnOnce() -> T) -> Result<T, String> {
    GUARD_DEPTH.with(|d| d.set(d.get() + 1));
    let r = std::panic::catch_unwind(std::panic::AssertUnwindSafe(f));
    GUARD_DEPTH.with(|d| d.set(d.get() - 1));
    match r {
        Ok(v) => Ok(v),
        Err(p) => Err(if let Some(s) = p.downcast_ref::<&str>() {
            (*s).to_string()
        } else if let Some(s) = p.downcast_ref::<String>() {
            s.clone()
        } else {
            "<non-string panic>".to_string()
        }),
    }
}

/// Silences panic output for panics inside `guarded` (expected and caught in sweeps);
/// a panic of the harness itself is still printed.
pub fn quiet_panics() {
    std::panic::set_hook(Box::new(|info| {
        if GUARD_DEPTH.with(|d| d.get()) == 0 {
            eprintln!("HARNESS PANIC: {info}");
        }
    }));
}
