//! Harness `FunctionDefinition`s that are not `SimpleFunctionDefinition`s:
//! `ctxfn` (per-call definition context, C03) and `boom` (panics on demand, C20).

use std::any::Any;
use wirefilter::{
    CompiledFunction, FunctionArgInvalidConstantError, FunctionArgKind, FunctionDefinition,
    FunctionDefinitionContext, FunctionParam, FunctionParamError, GetType, LhsValue, ParserSettings,
    RhsValue, Type,
};

#[derive(Clone, Debug, Default, PartialEq, Eq)]
pub struct CtxState {
    pub seen: Vec<String>,
}

pub fn describe_param(index: usize, p: &FunctionParam<'_>) -> String {
    let kind = match p.arg_kind() {
        FunctionArgKind::Literal => "L",
        FunctionArgKind::Field => "F",
    };
    format!("{index}:{kind}:{:?}", p.get_type())
}

/// `ctxfn(a [, b [, c]])`: any primitive arguments; returns Bytes describing what
/// `check_param` accumulated in the per-call context, as seen by `compile`.
#[derive(Debug)]
pub struct CtxFn;

fn bad(msg: &str) -> FunctionParamError {
    FunctionParamError::InvalidConstant(FunctionArgInvalidConstantError::new(msg.to_string()))
}

impl FunctionDefinition for CtxFn {
    fn context(&self) -> Option<FunctionDefinitionContext> {
        Some(FunctionDefinitionContext::new(CtxState::default()))
    }

    fn check_param(
        &self,
        _: &ParserSettings,
        params: &mut dyn ExactSizeIterator<Item = FunctionParam<'_>>,
        next_param: &FunctionParam<'_>,
        ctx: Option<&mut FunctionDefinitionContext>,
    ) -> Result<(), FunctionParamError> {
        let index = params.len();
        match next_param.get_type() {
            Type::Bytes | Type::Int | Type::Ip | Type::Bool => {}
            _ => return Err(bad("ctxfn takes primitive arguments")),
        }
        let ctx = ctx.ok_or_else(|| bad("ctxfn: no context passed to check_param"))?;
        let entry = describe_param(index, next_param);
        // every accessor must reach the same object; rotate through them
        match index % 3 {
            0 => {
                let any: &mut (dyn Any + Send + Sync) = ctx.as_any_mut();
                let st = any
                    .downcast_mut::<CtxState>()
                    .ok_or_else(|| bad("ctxfn: as_any_mut().downcast_mut failed"))?;
                st.seen.push(entry);
            }
            1 => {
                let st = ctx
                    .downcast_mut::<CtxState>()
                    .ok_or_else(|| bad("ctxfn: downcast_mut failed"))?;
                st.seen.push(entry);
            }
            _ => {
                let mut copy = ctx.clone();
                copy.downcast_mut::<CtxState>()
                    .ok_or_else(|| bad("ctxfn: clone().downcast_mut failed"))?
                    .seen
                    .push(entry);
                *ctx = copy;
            }
        }
        // read back through the shared accessors
        let n1 = ctx.as_any_ref().downcast_ref::<CtxState>().map(|s| s.seen.len());
        let n2 = ctx.downcast_ref::<CtxState>().map(|s| s.seen.len());
        if n1 != Some(index + 1) || n2 != Some(index + 1) {
            return Err(bad("ctxfn: context does not hold what check_param stored"));
        }
        Ok(())
    }

    fn return_type(
        &self,
        params: &mut dyn ExactSizeIterator<Item = FunctionParam<'_>>,
        ctx: Option<&FunctionDefinitionContext>,
    ) -> Type {
        let expected: Vec<String> = params.enumerate().map(|(i, p)| describe_param(i, &p)).collect();
        let ok = ctx
            .and_then(|c| c.downcast_ref::<CtxState>())
            .map(|s| s.seen == expected)
            .unwrap_or(false)
            && ctx
                .and_then(|c| c.as_any_ref().downcast_ref::<CtxState>())
                .map(|s| s.seen == expected)
                .unwrap_or(false);
        // a context that lost its content changes the static type, which the checks observe
        if ok { Type::Bytes } else { Type::Int }
    }

    fn arg_count(&self) -> (usize, Option<usize>) {
        (1, Some(2))
    }

    fn compile(
        &self,
        params: &mut dyn ExactSizeIterator<Item = FunctionParam<'_>>,
        ctx: Option<FunctionDefinitionContext>,
    ) -> CompiledFunction {
        let n = params.len();
        let seen: Vec<String> = match ctx {
            None => vec!["<no context>".to_string()],
            Some(ctx) => {
                if n % 2 == 0 {
                    match ctx.downcast::<CtxState>() {
                        Ok(b) => b.seen,
                        Err(_) => vec!["<downcast failed>".to_string()],
                    }
                } else {
                    match ctx.into_any().downcast::<CtxState>() {
                        Ok(b) => b.seen,
                        Err(_) => vec!["<into_any().downcast failed>".to_string()],
                    }
                }
            }
        };
        let text = format!("{}|{}", seen.join(";"), n);
        Box::new(move |args| {
            let got = args.len();
            // pull every argument (they are evaluated lazily)
            for _ in args {}
            Some(LhsValue::Bytes(format!("{text}|{got}").into_bytes().into()))
        })
    }
}

/// What the model expects `ctxfn` to return for arguments described by `descr`.
pub fn ctxfn_expected(descr: &[String]) -> Vec<u8> {
    format!("{}|{}|{}", descr.join(";"), descr.len(), descr.len()).into_bytes()
}

/// `boom(mode)`: literal Int; 1 panics in check_param, 2 in compile, 3 when executed; returns true.
#[derive(Debug)]
pub struct Panicky;

impl FunctionDefinition for Panicky {
    fn check_param(
        &self,
        _: &ParserSettings,
        _: &mut dyn ExactSizeIterator<Item = FunctionParam<'_>>,
        next_param: &FunctionParam<'_>,
        _: Option<&mut FunctionDefinitionContext>,
    ) -> Result<(), FunctionParamError> {
        match next_param {
            FunctionParam::Constant(RhsValue::Int(1)) => panic!("boom in check_param"),
            FunctionParam::Constant(RhsValue::Int(_)) => Ok(()),
            _ => Err(bad("boom takes an integer literal")),
        }
    }

    fn return_type(
        &self,
        _: &mut dyn ExactSizeIterator<Item = FunctionParam<'_>>,
        _: Option<&FunctionDefinitionContext>,
    ) -> Type {
        Type::Bool
    }

    fn arg_count(&self) -> (usize, Option<usize>) {
        (1, Some(0))
    }

    fn compile(
        &self,
        params: &mut dyn ExactSizeIterator<Item = FunctionParam<'_>>,
        _: Option<FunctionDefinitionContext>,
    ) -> CompiledFunction {
        let mode = match params.next() {
            Some(FunctionParam::Constant(RhsValue::Int(i))) => *i,
            _ => 0,
        };
        if mode == 2 {
            panic!("boom in compile");
        }
        Box::new(move |_| {
            if mode == 3 {
                panic!("boom in execute");
            }
            Some(LhsValue::Bool(true))
        })
    }
}
