//! Running model programs against the real engine.

use crate::ast::{Expr, Lhs, render, render_value};
use crate::ev::{Run, guarded};
use crate::sem::{Env, TypeErr, filter_ok, value_ty};
use crate::uni::{MCtx, MLists, Uni, install_sets, real_ctx};
use crate::val::{Ty, V};
use serde_json::{Value, json};
use wirefilter::{ExecutionContext, Scheme};

pub struct Bench {
    pub tag: String,
    pub uni: Uni,
    pub scheme: Scheme,
    pub mctxs: Vec<MCtx>,
    pub ctxs: Vec<ExecutionContext<'static>>,
    pub lists: Option<MLists>,
}

impl Bench {
    pub fn new(tag: &str, uni: Uni, mctxs: Vec<MCtx>) -> Bench {
        Bench::with_lists(tag, uni, mctxs, None)
    }

    pub fn with_lists(tag: &str, uni: Uni, mctxs: Vec<MCtx>, lists: Option<MLists>) -> Bench {
        let scheme = uni.build();
        let ctxs = mctxs
            .iter()
            .map(|m| {
                // SAFETY of lifetimes: contexts own their values ('static) and a clone of the scheme
                let mut c = real_ctx(&scheme, m);
                if let Some(l) = &lists {
                    install_sets(&scheme, &mut c, &uni, l);
                }
                c
            })
            .collect();
        Bench { tag: tag.to_string(), uni, scheme, mctxs, ctxs, lists }
    }

    pub fn env<'a>(&'a self, i: usize) -> Env<'a> {
        let mut e = Env::new(&self.uni, &self.mctxs[i]);
        e.lists = self.lists.as_ref();
        e
    }
}

/// Nesting depth of a JSON value (iterative: the values in question can be very deep).
fn value_depth(v: &Value) -> usize {
    let mut max = 0;
    let mut stack: Vec<(&Value, usize)> = vec![(v, 1)];
    while let Some((v, d)) = stack.pop() {
        max = max.max(d);
        match v {
            Value::Array(a) => stack.extend(a.iter().map(|x| (x, d + 1))),
            Value::Object(o) => stack.extend(o.values().map(|x| (x, d + 1))),
            _ => {}
        }
    }
    max
}

pub fn case_json(tag: &str, kind: &str, text: &str, e: Value, ctx: Option<&MCtx>, extra: Value) -> Value {
    // a replay file must be readable again: serde_json refuses documents nested deeper than 128,
    // so a very deep program tree is left out (the text is kept; replay re-runs the check)
    let e = if value_depth(&e) > 100 { json!({"omitted": "program tree nested too deeply for a JSON file; see `text`"}) } else { e };
    json!({
        "universe": tag,
        "kind": kind,
        "text": text,
        "program": e,
        "ctx": ctx,
        "detail": extra,
    })
}

#[derive(Default, Clone, Copy)]
pub struct Outcome {
    pub execs: u64,
    pub trues: u64,
    pub falses: u64,
}

/// Well-typed filter: parse must succeed, every context must agree with the model.
/// Returns per-program outcome counts (for non-triviality accounting).
pub fn check_filter(run: &Run, prop: &str, b: &Bench, e: &Expr) -> Outcome {
    let text = render(e);
    check_filter_text(run, prop, b, e, &text)
}

pub fn check_filter_text(run: &Run, prop: &str, b: &Bench, e: &Expr, text: &str) -> Outcome {
    let mut out = Outcome::default();
    debug_assert!(filter_ok(&b.uni, e).is_ok(), "generator produced ill-typed {text}");
    let parsed = guarded(|| b.scheme.parse(text).map_err(|err| err.to_string()));
    let ast = match parsed {
        Ok(Ok(ast)) => ast,
        Ok(Err(err)) => {
            run.violation(
                format!("{prop}:rejects-well-typed:{}:{text}", b.tag),
                format!("well-typed filter rejected: {text:?}: {}", err.lines().last().unwrap_or("")),
                case_json(&b.tag, "filter", text, json!(e), None, json!({"error": err})),
            );
            return out;
        }
        Err(p) => {
            run.violation(
                format!("{prop}:parse-panic:{}:{text}", b.tag),
                format!("parse panicked on {text:?}: {p}"),
                case_json(&b.tag, "filter", text, json!(e), None, json!({"panic": p})),
            );
            return out;
        }
    };
    let filter = match guarded(|| ast.compile()) {
        Ok(f) => f,
        Err(p) => {
            run.violation(
                format!("{prop}:compile-panic:{}:{text}", b.tag),
                format!("compile panicked on {text:?}: {p}"),
                case_json(&b.tag, "filter", text, json!(e), None, json!({"panic": p})),
            );
            return out;
        }
    };
    for i in 0..b.ctxs.len() {
        let want = b.env(i).eval_filter(e);
        let got = guarded(|| filter.execute(&b.ctxs[i]));
        out.execs += 1;
        match got {
            Ok(Ok(g)) if g == want => {
                if g {
                    out.trues += 1
                } else {
                    out.falses += 1
                }
            }
            Ok(Ok(_)) if run.types_only.load(std::sync::atomic::Ordering::Relaxed) => {
                run.count("results_differing_from_the_reference_semantics_not_judged_here", 1);
            }
            Ok(Ok(g)) => run.violation(
                format!("{prop}:wrong-result:{}:{text}", b.tag),
                format!("{text:?} on {:?}: engine {g}, reference {want}", short_ctx(&b.mctxs[i])),
                case_json(&b.tag, "filter", text, json!(e), Some(&b.mctxs[i]), json!({"engine": g, "reference": want})),
            ),
            Ok(Err(_)) => run.violation(
                format!("{prop}:scheme-mismatch:{}:{text}", b.tag),
                format!("{text:?}: unexpected scheme mismatch"),
                case_json(&b.tag, "filter", text, json!(e), Some(&b.mctxs[i]), json!({})),
            ),
            Err(p) => run.violation(
                format!("{prop}:execute-panic:{}:{text}", b.tag),
                format!("{text:?} on {:?}: execute panicked: {p}", short_ctx(&b.mctxs[i])),
                case_json(&b.tag, "filter", text, json!(e), Some(&b.mctxs[i]), json!({"panic": p})),
            ),
        }
    }
    run.eval(out.execs);
    out
}

pub fn short_ctx(m: &MCtx) -> String {
    m.iter().map(|(k, v)| format!("{k}={}", v.short())).collect::<Vec<_>>().join(" ")
}

/// Well-typed value expression (no `[*]`): `Ok(value)` equal to the model's or `Err(static type)`.
pub fn check_value(run: &Run, prop: &str, b: &Bench, l: &Lhs) -> u64 {
    let text = render_value(l);
    let ty = value_ty(&b.uni, l).expect("generator produced ill-typed value expression");
    let ast = match guarded(|| b.scheme.parse_value(&text).map_err(|e| e.to_string())) {
        Ok(Ok(a)) => a,
        Ok(Err(err)) => {
            run.violation(
                format!("{prop}:value-rejected:{}:{text}", b.tag),
                format!("well-typed value expression rejected: {text:?}"),
                case_json(&b.tag, "value", &text, json!(l), None, json!({"error": err})),
            );
            return 0;
        }
        Err(p) => {
            run.violation(
                format!("{prop}:value-parse-panic:{}:{text}", b.tag),
                format!("parse_value panicked on {text:?}: {p}"),
                case_json(&b.tag, "value", &text, json!(l), None, json!({"panic": p})),
            );
            return 0;
        }
    };
    let fv = match guarded(|| ast.compile()) {
        Ok(f) => f,
        Err(p) => {
            run.violation(
                format!("{prop}:value-compile-panic:{}:{text}", b.tag),
                format!("compile panicked on value {text:?}: {p}"),
                case_json(&b.tag, "value", &text, json!(l), None, json!({"panic": p})),
            );
            return 0;
        }
    };
    let mut n = 0;
    for i in 0..b.ctxs.len() {
        let want = b.env(i).value(l);
        let got = guarded(|| {
            fv.execute(&b.ctxs[i]).map(|r| match r {
                Ok(v) => Ok(V::from_engine(&v)),
                Err(t) => Err(Ty::from_engine(t)),
            })
        });
        n += 1;
        let types_only = run.types_only.load(std::sync::atomic::Ordering::Relaxed);
        let ok = match (&got, &want) {
            (Ok(Ok(Ok(g))), Ok(w)) => (g == w || types_only) && g.ty() == ty && g.well_typed(),
            (Ok(Ok(Err(g))), Err(w)) => g == w && *g == ty,
            // which of value / absence it is belongs to the semantics; the static type does not
            (Ok(Ok(Ok(g))), Err(_)) if types_only => g.ty() == ty && g.well_typed(),
            (Ok(Ok(Err(g))), Ok(_)) if types_only => *g == ty,
            _ => false,
        };
        if types_only && ok && !matches!((&got, &want), (Ok(Ok(Ok(g))), Ok(w)) if g == w) && !matches!((&got, &want), (Ok(Ok(Err(_))), Err(_))) {
            run.count("results_differing_from_the_reference_semantics_not_judged_here", 1);
        }
        if !ok {
            run.violation(
                format!("{prop}:value-wrong:{}:{text}", b.tag),
                format!("value {text:?} on {:?}: engine {:?}, reference {:?}", short_ctx(&b.mctxs[i]), got, want),
                case_json(&b.tag, "value", &text, json!(l), Some(&b.mctxs[i]), json!({"engine": format!("{got:?}"), "reference": format!("{want:?}")})),
            );
        }
    }
    run.eval(n);
    n
}

/// Candidate (possibly ill-typed) filter: accept <=> reference typer accepts.
/// Accepted ones are compiled and executed on every context (no panic, model value).
pub fn check_candidate(run: &Run, prop: &str, b: &Bench, e: &Expr) -> (bool, Result<(), TypeErr>) {
    let text = render(e);
    let want = filter_ok(&b.uni, e);
    let got = guarded(|| b.scheme.parse(&text).map(|_| ()).map_err(|err| err.to_string()));
    run.eval(1);
    match (&got, &want) {
        (Ok(Ok(())), Ok(())) => {
            check_filter_text(run, prop, b, e, &text);
            (true, want)
        }
        (Ok(Err(_)), Err(_)) => (false, want),
        (Ok(Ok(())), Err(te)) => {
            // accepted although ill-typed: also see whether it runs into a panic later
            let mut panic_note = None;
            if let Ok(Ok(ast)) = guarded(|| b.scheme.parse(&text)) {
                match guarded(|| ast.compile()) {
                    Err(p) => panic_note = Some(format!("compile panicked: {p}")),
                    Ok(f) => {
                        for c in &b.ctxs {
                            if let Err(p) = guarded(|| f.execute(c)) {
                                panic_note = Some(format!("execute panicked: {p}"));
                                break;
                            }
                        }
                    }
                }
            }
            run.violation(
                format!("{prop}:accepts-ill-typed:{}:{text}", b.tag),
                format!("ill-typed filter accepted: {text:?} ({}){}", te.0, panic_note.as_ref().map(|p| format!("; {p}")).unwrap_or_default()),
                case_json(&b.tag, "candidate", &text, json!(e), None, json!({"type_error": te.0, "later": panic_note})),
            );
            (true, want)
        }
        (Ok(Err(err)), Ok(())) => {
            run.violation(
                format!("{prop}:rejects-well-typed:{}:{text}", b.tag),
                format!("well-typed filter rejected: {text:?}: {}", err.lines().last().unwrap_or("")),
                case_json(&b.tag, "candidate", &text, json!(e), None, json!({"error": err})),
            );
            (false, want)
        }
        (Err(p), _) => {
            run.violation(
                format!("{prop}:parse-panic:{}:{text}", b.tag),
                format!("parse panicked on {text:?}: {p}"),
                case_json(&b.tag, "candidate", &text, json!(e), None, json!({"panic": p})),
            );
            (false, want)
        }
    }
}
