//! Reference semantics: static typing, evaluation and canonical JSON of the mini-AST.
//! Deliberately naive (recursion, Vec, BTreeMap); shares no code with the engine.

use crate::ast::*;
use crate::uni::{CallRec, Kind, MArg, MCtx, MLists, Special, Uni};
use crate::val::{Ty, V};
use std::cmp::Ordering;
use std::net::IpAddr;

// ---------------------------------------------------------------------------
// Typing

#[derive(Clone, Debug, PartialEq, Eq)]
pub struct TypeErr(pub String);

fn terr<T>(s: impl Into<String>) -> Result<T, TypeErr> {
    Err(TypeErr(s.into()))
}

/// Type of the identifier (field type / call result type incl. map-each wrapping).
pub fn ident_ty(u: &Uni, id: &Ident) -> Result<Ty, TypeErr> {
    match id {
        Ident::Field(n) => match u.field(n) {
            Some((_, t, _)) => Ok(t.clone()),
            None => terr(format!("unknown field {n}")),
        },
        Ident::Call(n, args) => {
            let f = match u.func(n) {
                Some(f) => f,
                None => return terr(format!("unknown function {n}")),
            };
            let ret = call_ret_ty(u, f, args)?;
            if args.first().map(arg_each_count).unwrap_or(0) > 0 {
                Ok(Ty::arr(ret))
            } else {
                Ok(ret)
            }
        }
    }
}

fn arg_each_count(a: &Arg) -> usize {
    match a {
        Arg::Lhs(l) => l.each_count(),
        _ => 0,
    }
}

/// Type of an argument as the function definition sees it (a `[*]` strips a layer).
pub fn arg_ty(u: &Uni, a: &Arg) -> Result<Ty, TypeErr> {
    match a {
        Arg::Lhs(l) => lhs_ty(u, l),
        // the argument lexer decides "identifier or literal" from the first characters:
        // `0x..` is taken for an identifier, so hex integers cannot be written there
        Arg::Lit(Lit::Int(_, IntForm::Hex | IntForm::HexUpper)) => terr("hex integer literal in argument position"),
        Arg::Lit(l) => Ok(l.ty()),
        Arg::Logical(e) => {
            if !arg_form_ok(e) {
                return terr("logical argument not in a recognisable form");
            }
            expr_ty(u, e)
        }
    }
}

fn call_ret_ty(u: &Uni, f: &crate::uni::FnSpec, args: &[Arg]) -> Result<Ty, TypeErr> {
    for (i, a) in args.iter().enumerate() {
        if i > 0 && arg_each_count(a) > 0 {
            return terr("[*] only allowed in the first argument");
        }
    }
    match f.special {
        Some(Special::Concat) => {
            if args.len() < 2 {
                return terr("concat needs >= 2 arguments");
            }
            let t0 = arg_ty(u, &args[0])?;
            if !(matches!(t0, Ty::Arr(_)) || t0 == Ty::Bytes) {
                return terr("concat: first argument must be Bytes or an array");
            }
            for a in &args[1..] {
                if arg_ty(u, a)? != t0 {
                    return terr("concat: argument types differ");
                }
            }
            Ok(t0)
        }
        Some(Special::CtxFn) => {
            if args.is_empty() || args.len() > 3 {
                return terr("ctxfn arity");
            }
            for a in args {
                match arg_ty(u, a)? {
                    Ty::Bytes | Ty::Int | Ty::Ip | Ty::Bool => {}
                    _ => return terr("ctxfn takes primitives"),
                }
            }
            Ok(Ty::Bytes)
        }
        Some(Special::Panicky) => {
            if args.len() != 1 || !matches!(args[0], Arg::Lit(Lit::Int(..))) {
                return terr("boom takes one integer literal");
            }
            Ok(Ty::Bool)
        }
        None => {
            let min = f.params.len();
            let max = min + f.opts.len();
            if args.len() < min || args.len() > max {
                return terr(format!("{}: arity", f.name));
            }
            for (i, a) in args.iter().enumerate() {
                let (kind, want) = if i < min {
                    (f.params[i].0, f.params[i].1.clone())
                } else {
                    (f.opts[i - min].0, f.opts[i - min].1.ty())
                };
                let is_lit = matches!(a, Arg::Lit(_));
                match kind {
                    Kind::Field if is_lit => return terr(format!("{}: arg {i} must not be a literal", f.name)),
                    Kind::Literal if !is_lit => return terr(format!("{}: arg {i} must be a literal", f.name)),
                    _ => {}
                }
                let got = arg_ty(u, a)?;
                if got != want {
                    return terr(format!("{}: arg {i} has type {} not {}", f.name, got.short(), want.short()));
                }
            }
            Ok(f.ret.clone())
        }
    }
}

/// Type after applying the index path (each `[*]` strips one layer, like `[n]`).
pub fn lhs_ty(u: &Uni, l: &Lhs) -> Result<Ty, TypeErr> {
    let mut t = ident_ty(u, &l.id)?;
    for i in &l.path {
        t = match (i, t) {
            (Idx::N(_), Ty::Arr(e)) => *e,
            (Idx::K(_), Ty::Map(e)) => *e,
            (Idx::Each, Ty::Arr(e)) | (Idx::Each, Ty::Map(e)) => *e,
            (i, t) => return terr(format!("index {i:?} on {}", t.short())),
        };
    }
    Ok(t)
}

fn cmp_admissible(u: &Uni, t: &Ty, op: CmpOp, rhs: &Rhs) -> bool {
    use CmpOp::*;
    match (t, op, rhs) {
        (Ty::Int, Eq | Ne | Ge | Le | Gt | Lt, Rhs::Lit(Lit::Int(..))) => true,
        (Ty::Bytes, Eq | Ne | Ge | Le | Gt | Lt, Rhs::Lit(Lit::Bytes(..))) => true,
        (Ty::Ip, Eq | Ne | Ge | Le | Gt | Lt, Rhs::Lit(Lit::Ip(..))) => true,
        (Ty::Int, BitAnd, Rhs::Lit(Lit::Int(..))) => true,
        (Ty::Bytes, Contains, Rhs::Lit(Lit::Bytes(..))) => true,
        (Ty::Bytes, Matches, Rhs::Regex(..)) => true,
        (Ty::Bytes, Wildcard | StrictWildcard, Rhs::Lit(Lit::Bytes(_, f))) => !matches!(f, BytesForm::Hex(_)),
        // an empty brace list is written `{}` whatever the type
        (Ty::Int | Ty::Ip | Ty::Bytes, In, Rhs::IntSet(v)) if v.is_empty() => true,
        (Ty::Int | Ty::Ip | Ty::Bytes, In, Rhs::IpSet(v)) if v.is_empty() => true,
        (Ty::Int | Ty::Ip | Ty::Bytes, In, Rhs::BytesSet(v)) if v.is_empty() => true,
        (Ty::Int, In, Rhs::IntSet(_)) => true,
        (Ty::Ip, In, Rhs::IpSet(_)) => true,
        (Ty::Bytes, In, Rhs::BytesSet(_)) => true,
        (Ty::Int | Ty::Ip | Ty::Bytes, InList, Rhs::List(_)) => u.list_for(t).is_some(),
        _ => false,
    }
}

/// Static type of a logical expression: `Bool`, `Arr(Bool)` (or `Map(Bool)` for a bare
/// boolean map, which nothing accepts).
pub fn expr_ty(u: &Uni, e: &Expr) -> Result<Ty, TypeErr> {
    match e {
        Expr::IsTrue(l) => {
            let t = lhs_ty(u, l)?;
            let each = l.each_count();
            if t == Ty::Bool {
                Ok(if each > 0 { Ty::arr(Ty::Bool) } else { Ty::Bool })
            } else if t.elem() == Some(&Ty::Bool) {
                if each > 0 {
                    terr("would be an array of boolean arrays")
                } else {
                    Ok(t)
                }
            } else {
                terr(format!("bare value of type {}", t.short()))
            }
        }
        Expr::Cmp { lhs, op, rhs } => {
            let t = lhs_ty(u, lhs)?;
            if !cmp_admissible(u, &t, *op, rhs) {
                return terr(format!("operator {op:?} not admissible on {} with this literal", t.short()));
            }
            Ok(if lhs.each_count() > 0 { Ty::arr(Ty::Bool) } else { Ty::Bool })
        }
        Expr::Not(e) | Expr::Paren(e) => expr_ty(u, e),
        Expr::Chain(_, items) => {
            let t0 = expr_ty(u, &items[0])?;
            for i in &items[1..] {
                let t = expr_ty(u, i)?;
                let ok = (t0 == Ty::Bool && t == Ty::Bool)
                    || (matches!(t0, Ty::Arr(_)) && matches!(t, Ty::Arr(_)));
                if !ok {
                    return terr("logical operands must be both booleans or both boolean arrays");
                }
            }
            Ok(t0)
        }
        Expr::Quant(_, a) => {
            let t = match &**a {
                QArg::Lhs(l) => {
                    // A bare `x[*]` has no reading here: as a value it is an array of what the
                    // path reaches (never a plain boolean array unless written `(x[*])`), and
                    // there is no map-each application for quantifiers.
                    if l.each_count() > 0 {
                        return terr("bare [*] path as quantifier argument");
                    }
                    lhs_ty(u, l)?
                }
                QArg::Logical(e) => {
                    if !arg_form_ok(e) {
                        return terr("quantifier argument not in a recognisable form");
                    }
                    expr_ty(u, e)?
                }
            };
            if t == Ty::arr(Ty::Bool) {
                Ok(Ty::Bool)
            } else {
                terr(format!("quantifier argument has type {}", t.short()))
            }
        }
    }
}

/// A complete filter: root must be Bool.
pub fn filter_ok(u: &Uni, e: &Expr) -> Result<(), TypeErr> {
    match expr_ty(u, e)? {
        Ty::Bool => Ok(()),
        t => terr(format!("root has type {}", t.short())),
    }
}

/// A value expression: no `[*]` at top level.
pub fn value_ty(u: &Uni, l: &Lhs) -> Result<Ty, TypeErr> {
    let t = lhs_ty(u, l)?;
    if l.each_count() > 0 {
        return terr("value expression with [*]");
    }
    Ok(t)
}

// ---------------------------------------------------------------------------
// Evaluation

pub struct Env<'a> {
    pub uni: &'a Uni,
    pub ctx: &'a MCtx,
    pub lists: Option<&'a MLists>,
    /// harness function invocations in evaluation order (when enabled)
    pub log: Option<Vec<CallRec>>,
    /// list queries in evaluation order (when enabled)
    pub qlog: Option<Vec<(String, V)>>,
    /// evaluate the non-mapped arguments of a map-each call once up front (even for zero
    /// elements) instead of once per element; values are identical, only the logs differ
    pub memo: bool,
    /// evaluate every operand of `and` / `or` even while logging (no short-circuit emulation)
    pub eager: bool,
}

impl<'a> Env<'a> {
    pub fn new(uni: &'a Uni, ctx: &'a MCtx) -> Self {
        Env { uni, ctx, lists: None, log: None, qlog: None, memo: false, eager: false }
    }
}

#[derive(Clone, Debug, PartialEq, Eq)]
pub enum R {
    B(bool),
    A(Vec<bool>),
}

fn step<'v>(v: &'v V, i: &Idx) -> Option<&'v V> {
    match (v, i) {
        (V::Arr(_, items), Idx::N(n)) => items.get(*n as usize),
        (V::Map(_, items), Idx::K(k)) => items.get(k.as_bytes()),
        _ => None,
    }
}

fn children(v: &V) -> Vec<&V> {
    match v {
        V::Arr(_, items) => items.iter().collect(),
        V::Map(_, items) => items.values().collect(),
        _ => vec![],
    }
}

/// Expands a path over a value: list of reached values in row-major order.
fn expand<'v>(v: &'v V, path: &[Idx], out: &mut Vec<&'v V>) {
    match path.first() {
        None => out.push(v),
        Some(Idx::Each) => {
            for c in children(v) {
                expand(c, &path[1..], out);
            }
        }
        Some(i) => {
            if let Some(c) = step(v, i) {
                expand(c, &path[1..], out);
            }
        }
    }
}

pub enum LhsVal {
    /// no `[*]`: zero or one value
    One(Option<V>),
    /// with `[*]`: `None` when the container in front of the first `[*]` is absent
    Many(Option<Vec<V>>),
}

impl<'a> Env<'a> {
    fn ident_val(&mut self, id: &Ident) -> Option<V> {
        match id {
            Ident::Field(n) => self.ctx.get(n).cloned(),
            Ident::Call(n, args) => self.call(n, args),
        }
    }

    pub fn lhs_val(&mut self, l: &Lhs) -> LhsVal {
        let base = self.ident_val(&l.id);
        match l.path.iter().position(|i| *i == Idx::Each) {
            None => {
                let mut cur = base;
                for i in &l.path {
                    cur = cur.and_then(|v| step(&v, i).cloned());
                }
                LhsVal::One(cur)
            }
            Some(first_each) => {
                let mut cur = base;
                for i in &l.path[..first_each] {
                    cur = cur.and_then(|v| step(&v, i).cloned());
                }
                match cur {
                    None => LhsVal::Many(None),
                    Some(v) => {
                        let mut out = Vec::new();
                        expand(&v, &l.path[first_each..], &mut out);
                        LhsVal::Many(Some(out.into_iter().cloned().collect()))
                    }
                }
            }
        }
    }

    fn arg_val(&mut self, a: &Arg) -> MArg {
        match a {
            Arg::Lit(l) => Ok(l.value()),
            Arg::Logical(e) => Ok(match self.eval(e) {
                R::B(b) => V::Bool(b),
                R::A(v) => V::Arr(Ty::Bool, v.into_iter().map(V::Bool).collect()),
            }),
            Arg::Lhs(l) => {
                let t = lhs_ty(self.uni, l).expect("typed");
                match self.lhs_val(l) {
                    LhsVal::One(Some(v)) => Ok(v),
                    LhsVal::One(None) => Err(t),
                    LhsVal::Many(Some(vs)) => Ok(V::Arr(t, vs)),
                    LhsVal::Many(None) => Err(Ty::arr(t)),
                }
            }
        }
    }

    fn invoke(&mut self, f: &crate::uni::FnSpec, args: Vec<MArg>, all_args: &[Arg]) -> Option<V> {
        match f.special {
            Some(Special::Concat) => {
                let mut present = args.into_iter().filter_map(|a| a.ok());
                let first = present.next()?;
                Some(match first {
                    V::Bytes(mut b) => {
                        for p in present {
                            if let V::Bytes(x) = p {
                                b.extend_from_slice(&x);
                            }
                        }
                        V::Bytes(b)
                    }
                    V::Arr(t, mut items) => {
                        for p in present {
                            if let V::Arr(_, x) = p {
                                items.extend(x);
                            }
                        }
                        V::Arr(t, items)
                    }
                    other => other,
                })
            }
            Some(Special::CtxFn) => {
                let descr: Vec<String> = all_args
                    .iter()
                    .enumerate()
                    .map(|(i, a)| {
                        let kind = if matches!(a, Arg::Lit(_)) { "L" } else { "F" };
                        let t = arg_ty(self.uni, a).expect("typed").to_engine();
                        format!("{i}:{kind}:{t:?}")
                    })
                    .collect();
                Some(V::Bytes(crate::ctxfn::ctxfn_expected(&descr)))
            }
            Some(Special::Panicky) => Some(V::Bool(true)),
            None => {
                let mut full = args;
                // omitted optional parameters take their declared defaults
                let given_opts = full.len() - f.params.len();
                for (_, d) in &f.opts[given_opts..] {
                    full.push(Ok(d.clone()));
                }
                if let Some(log) = self.log.as_mut() {
                    log.push(CallRec { name: f.name.to_string(), args: full.clone() });
                }
                (f.imp)(&full)
            }
        }
    }

    fn call(&mut self, name: &str, args: &[Arg]) -> Option<V> {
        let f = self.uni.func(name).expect("typed").clone();
        let mapped = args.first().map(arg_each_count).unwrap_or(0) > 0;
        if !mapped {
            let vals: Vec<MArg> = args.iter().map(|a| self.arg_val(a)).collect();
            return self.invoke(&f, vals, args);
        }
        // map-each: the function is applied once per element of the first argument
        let memoised: Option<Vec<MArg>> =
            if self.memo { Some(args[1..].iter().map(|a| self.arg_val(a)).collect()) } else { None };
        let first = match &args[0] {
            Arg::Lhs(l) => self.lhs_val(l),
            _ => unreachable!(),
        };
        let elems = match first {
            LhsVal::Many(Some(v)) => v,
            LhsVal::Many(None) => {
                // The statement leaves open how often the other arguments are evaluated;
                // with an absent first argument the engine does not evaluate them either way
                // unless it memoises. The log comparison treats extra-argument evaluations as
                // free (see C03), so nothing is recorded here.
                return None;
            }
            LhsVal::One(_) => unreachable!(),
        };
        let ret = call_ret_ty(self.uni, &f, args).expect("typed");
        let mut out = Vec::new();
        for e in elems {
            let mut vals: Vec<MArg> = vec![Ok(e)];
            match &memoised {
                Some(m) => vals.extend(m.iter().cloned()),
                None => {
                    for a in &args[1..] {
                        vals.push(self.arg_val(a));
                    }
                }
            }
            if let Some(v) = self.invoke(&f, vals, args) {
                out.push(v);
            }
        }
        Some(V::Arr(ret, out))
    }

    /// Value expression (no `[*]`): value or typed absence.
    pub fn value(&mut self, l: &Lhs) -> MArg {
        let t = lhs_ty(self.uni, l).expect("typed");
        match self.lhs_val(l) {
            LhsVal::One(Some(v)) => Ok(v),
            LhsVal::One(None) => Err(t),
            LhsVal::Many(_) => unreachable!("value expressions have no [*]"),
        }
    }

    fn cmp1(&mut self, v: &V, op: CmpOp, rhs: &Rhs) -> bool {
        match (op, rhs) {
            (CmpOp::Eq | CmpOp::Ne | CmpOp::Ge | CmpOp::Le | CmpOp::Gt | CmpOp::Lt, Rhs::Lit(l)) => {
                let ord = strict_cmp(v, &l.value());
                match (op, ord) {
                    (CmpOp::Ne, None) => true,
                    (_, None) => false,
                    (CmpOp::Eq, Some(o)) => o == Ordering::Equal,
                    (CmpOp::Ne, Some(o)) => o != Ordering::Equal,
                    (CmpOp::Ge, Some(o)) => o != Ordering::Less,
                    (CmpOp::Le, Some(o)) => o != Ordering::Greater,
                    (CmpOp::Gt, Some(o)) => o == Ordering::Greater,
                    (CmpOp::Lt, Some(o)) => o == Ordering::Less,
                    _ => unreachable!(),
                }
            }
            (CmpOp::BitAnd, Rhs::Lit(Lit::Int(m, _))) => match v {
                V::Int(i) => i & m != 0,
                _ => unreachable!(),
            },
            (CmpOp::Contains, Rhs::Lit(Lit::Bytes(n, _))) => match v {
                V::Bytes(h) => naive_contains(h, n),
                _ => unreachable!(),
            },
            (CmpOp::Matches, Rhs::Regex(p, _)) => match v {
                V::Bytes(h) => crate::rx::search(p, h),
                _ => unreachable!(),
            },
            (CmpOp::Wildcard, Rhs::Lit(Lit::Bytes(p, _))) => match v {
                V::Bytes(h) => crate::rx::wildcard_match(p, h, false),
                _ => unreachable!(),
            },
            (CmpOp::StrictWildcard, Rhs::Lit(Lit::Bytes(p, _))) => match v {
                V::Bytes(h) => crate::rx::wildcard_match(p, h, true),
                _ => unreachable!(),
            },
            (CmpOp::In, Rhs::IntSet(items)) if items.is_empty() => false,
            (CmpOp::In, Rhs::IpSet(items)) if items.is_empty() => false,
            (CmpOp::In, Rhs::BytesSet(items)) if items.is_empty() => false,
            (CmpOp::In, Rhs::IntSet(items)) => match v {
                V::Int(i) => items.iter().any(|it| it.lo <= *i && *i <= it.hi.unwrap_or(it.lo)),
                _ => unreachable!(),
            },
            (CmpOp::In, Rhs::IpSet(items)) => match v {
                V::Ip(ip) => items.iter().any(|it| ip_item_contains(it, ip)),
                _ => unreachable!(),
            },
            (CmpOp::In, Rhs::BytesSet(items)) => match v {
                V::Bytes(b) => items.iter().any(|(x, _)| x == b),
                _ => unreachable!(),
            },
            (CmpOp::InList, Rhs::List(name)) => {
                let idx = self.uni.list_for(&v.ty()).expect("typed");
                if let Some(q) = self.qlog.as_mut() {
                    q.push((name.clone(), v.clone()));
                }
                match self.uni.lists[idx].1 {
                    crate::uni::ListKind::Always => true,
                    crate::uni::ListKind::Never => false,
                    crate::uni::ListKind::Set => self
                        .lists
                        .and_then(|l| l.get(&idx))
                        .and_then(|sets| sets.get(name))
                        .map(|s| s.contains(v))
                        .unwrap_or(false),
                }
            }
            _ => unreachable!("ill-typed comparison reached the evaluator"),
        }
    }

    pub fn eval(&mut self, e: &Expr) -> R {
        match e {
            Expr::IsTrue(l) => {
                let t = lhs_ty(self.uni, l).expect("typed");
                if t == Ty::Bool {
                    match self.lhs_val(l) {
                        LhsVal::One(Some(V::Bool(b))) => R::B(b),
                        LhsVal::One(None) => R::B(false),
                        LhsVal::Many(Some(vs)) => R::A(vs.iter().map(|v| *v == V::Bool(true)).collect()),
                        LhsVal::Many(None) => R::A(vec![]),
                        _ => unreachable!(),
                    }
                } else {
                    // bare boolean container: its elements, absent -> empty
                    match self.lhs_val(l) {
                        LhsVal::One(Some(v)) => R::A(children(&v).iter().map(|v| **v == V::Bool(true)).collect()),
                        LhsVal::One(None) => R::A(vec![]),
                        _ => unreachable!(),
                    }
                }
            }
            Expr::Cmp { lhs, op, rhs } => match self.lhs_val(lhs) {
                LhsVal::One(Some(v)) => R::B(self.cmp1(&v, *op, rhs)),
                LhsVal::One(None) => R::B(*op == CmpOp::Ne && self.uni.nil_ne),
                LhsVal::Many(Some(vs)) => R::A(vs.iter().map(|v| self.cmp1(v, *op, rhs)).collect()),
                LhsVal::Many(None) => R::A(vec![]),
            },
            Expr::Not(e) => match self.eval(e) {
                R::B(b) => R::B(!b),
                R::A(v) => R::A(v.into_iter().map(|b| !b).collect()),
            },
            Expr::Paren(e) => self.eval(e),
            Expr::Chain(op, items) => {
                // NB: evaluation order / short-circuit is not part of the value
                let vals: Vec<R> = match op {
                    // emulate short circuit only for the *call log* (values are unaffected)
                    LOp::And | LOp::Or if !self.eager && (self.log.is_some() || self.qlog.is_some()) => {
                        let mut vals = Vec::new();
                        for i in items {
                            let r = self.eval(i);
                            let stop = matches!((&r, op), (R::B(false), LOp::And) | (R::B(true), LOp::Or));
                            vals.push(r);
                            if stop {
                                break;
                            }
                        }
                        vals
                    }
                    _ => items.iter().map(|i| self.eval(i)).collect(),
                };
                let f = |a: bool, b: bool| match op {
                    LOp::And => a && b,
                    LOp::Or => a || b,
                    LOp::Xor => a ^ b,
                };
                match &vals[0] {
                    R::B(_) => {
                        let mut acc = match vals[0] {
                            R::B(b) => b,
                            _ => unreachable!(),
                        };
                        for v in &vals[1..] {
                            match v {
                                R::B(b) => acc = f(acc, *b),
                                _ => unreachable!(),
                            }
                        }
                        R::B(acc)
                    }
                    R::A(_) => {
                        let vecs: Vec<&Vec<bool>> = vals
                            .iter()
                            .map(|v| match v {
                                R::A(v) => v,
                                _ => unreachable!(),
                            })
                            .collect();
                        let n = vecs.iter().map(|v| v.len()).min().unwrap();
                        R::A((0..n)
                            .map(|k| vecs[1..].iter().fold(vecs[0][k], |acc, v| f(acc, v[k])))
                            .collect())
                    }
                }
            }
            Expr::Quant(q, a) => {
                let elems: Option<Vec<bool>> = match &**a {
                    QArg::Lhs(l) => match self.lhs_val(l) {
                        LhsVal::One(Some(v)) => Some(children(&v).iter().map(|v| **v == V::Bool(true)).collect()),
                        LhsVal::One(None) => None,
                        LhsVal::Many(_) => unreachable!("rejected by the reference typer"),
                    },
                    QArg::Logical(e) => match self.eval(e) {
                        R::A(v) => Some(v),
                        R::B(_) => unreachable!(),
                    },
                };
                R::B(match (q, elems) {
                    (_, None) => false,
                    (QOp::Any, Some(v)) => v.iter().any(|b| *b),
                    (QOp::All, Some(v)) => v.iter().all(|b| *b),
                })
            }
        }
    }

    pub fn eval_filter(&mut self, e: &Expr) -> bool {
        match self.eval(e) {
            R::B(b) => b,
            R::A(_) => unreachable!("root is Bool"),
        }
    }
}

pub fn strict_cmp(a: &V, b: &V) -> Option<Ordering> {
    match (a, b) {
        (V::Int(x), V::Int(y)) => Some(x.cmp(y)),
        (V::Bytes(x), V::Bytes(y)) => Some(lex_cmp(x, y)),
        (V::Ip(IpAddr::V4(x)), V::Ip(IpAddr::V4(y))) => Some(x.octets().cmp(&y.octets())),
        (V::Ip(IpAddr::V6(x)), V::Ip(IpAddr::V6(y))) => Some(x.octets().cmp(&y.octets())),
        (V::Ip(_), V::Ip(_)) => None,
        _ => unreachable!("ill-typed comparison"),
    }
}

fn lex_cmp(a: &[u8], b: &[u8]) -> Ordering {
    let mut i = 0;
    loop {
        match (a.get(i), b.get(i)) {
            (None, None) => return Ordering::Equal,
            (None, Some(_)) => return Ordering::Less,
            (Some(_), None) => return Ordering::Greater,
            (Some(x), Some(y)) if x != y => return x.cmp(y),
            _ => i += 1,
        }
    }
}

pub fn naive_contains(h: &[u8], n: &[u8]) -> bool {
    if n.is_empty() {
        return true;
    }
    if h.len() < n.len() {
        return false;
    }
    (0..=h.len() - n.len()).any(|i| &h[i..i + n.len()] == n)
}

fn ip_bits(ip: &IpAddr) -> (u8, u128) {
    match ip {
        IpAddr::V4(a) => (4, u32::from_be_bytes(a.octets()) as u128),
        IpAddr::V6(a) => (6, u128::from_be_bytes(a.octets())),
    }
}

pub fn ip_item_range(it: &IpItem) -> (u8, u128, u128) {
    match it {
        IpItem::Addr(a) => {
            let (f, x) = ip_bits(a);
            (f, x, x)
        }
        IpItem::Range(a, b) => {
            let (f, x) = ip_bits(a);
            let (_, y) = ip_bits(b);
            (f, x, y)
        }
        IpItem::Cidr(a, p) => {
            let (f, x) = ip_bits(a);
            let width: u32 = if f == 4 { 32 } else { 128 };
            let host = width - *p as u32;
            let mask: u128 = if host == 0 { 0 } else if host >= 128 { u128::MAX } else { (1u128 << host) - 1 };
            (f, x & !mask, x | mask)
        }
    }
}

pub fn ip_item_contains(it: &IpItem, ip: &IpAddr) -> bool {
    let (f, lo, hi) = ip_item_range(it);
    let (g, x) = ip_bits(ip);
    f == g && lo <= x && x <= hi
}

// ---------------------------------------------------------------------------
// Canonical JSON (text, in the engine's field order)

fn js(s: &str) -> String {
    serde_json::to_string(s).unwrap()
}

fn bytes_json(b: &[u8], form: BytesForm) -> String {
    match form {
        BytesForm::Hex(_) => int_list(b),
        _ => match std::str::from_utf8(b) {
            Ok(s) => js(s),
            Err(_) => int_list(b),
        },
    }
}

fn int_list(b: &[u8]) -> String {
    format!("[{}]", b.iter().map(|c| c.to_string()).collect::<Vec<_>>().join(","))
}

pub fn lit_json(l: &Lit) -> String {
    match l {
        Lit::Int(i, _) => i.to_string(),
        Lit::Bytes(b, f) => bytes_json(b, *f),
        Lit::Ip(ip) => js(&ip.to_string()),
    }
}

fn ip_item_json(it: &IpItem) -> String {
    match it {
        // a lone address in a list is a host CIDR, printed without a prefix length
        IpItem::Addr(a) => js(&a.to_string()),
        IpItem::Cidr(a, p) => {
            let full = match a {
                IpAddr::V4(_) => 32,
                IpAddr::V6(_) => 128,
            };
            if *p == full { js(&a.to_string()) } else { js(&format!("{a}/{p}")) }
        }
        IpItem::Range(a, b) => format!("{{\"start\":{},\"end\":{}}}", js(&a.to_string()), js(&b.to_string())),
    }
}

pub fn lhs_json(l: &Lhs) -> String {
    let id = match &l.id {
        Ident::Field(n) => js(n),
        Ident::Call(n, args) => {
            let args: Vec<String> = args
                .iter()
                .map(|a| match a {
                    Arg::Lhs(l) => format!("{{\"kind\":\"IndexExpr\",\"value\":{}}}", lhs_json(l)),
                    Arg::Lit(l) => format!("{{\"kind\":\"Literal\",\"value\":{}}}", lit_json(l)),
                    Arg::Logical(e) => format!("{{\"kind\":\"SimpleExpr\",\"value\":{}}}", expr_json(e)),
                })
                .collect();
            format!("{{\"name\":{},\"args\":[{}]}}", js(n), args.join(","))
        }
    };
    if l.path.is_empty() {
        id
    } else {
        let mut parts = vec![id];
        for i in &l.path {
            parts.push(match i {
                Idx::N(n) => format!("{{\"kind\":\"ArrayIndex\",\"value\":{n}}}"),
                Idx::K(k) => format!("{{\"kind\":\"MapKey\",\"value\":{}}}", js(k)),
                Idx::Each => "{\"kind\":\"MapEach\"}".to_string(),
            });
        }
        format!("[{}]", parts.join(","))
    }
}

pub fn expr_json(e: &Expr) -> String {
    match e {
        Expr::IsTrue(l) => format!("{{\"lhs\":{},\"op\":\"IsTrue\"}}", lhs_json(l)),
        Expr::Cmp { lhs, op, rhs } => {
            let opn = match op {
                CmpOp::Eq => "Equal",
                CmpOp::Ne => "NotEqual",
                CmpOp::Ge => "GreaterThanEqual",
                CmpOp::Le => "LessThanEqual",
                CmpOp::Gt => "GreaterThan",
                CmpOp::Lt => "LessThan",
                CmpOp::BitAnd => "BitwiseAnd",
                CmpOp::Contains => "Contains",
                CmpOp::Matches => "Matches",
                CmpOp::Wildcard => "Wildcard",
                CmpOp::StrictWildcard => "Strict Wildcard",
                CmpOp::In => "OneOf",
                CmpOp::InList => "InList",
            };
            let r = match rhs {
                Rhs::Lit(l) => lit_json(l),
                Rhs::Regex(p, _) => js(p),
                Rhs::List(n) => js(n),
                Rhs::IntSet(items) => format!(
                    "[{}]",
                    items
                        .iter()
                        .map(|it| format!("{{\"start\":{},\"end\":{}}}", it.lo, it.hi.unwrap_or(it.lo)))
                        .collect::<Vec<_>>()
                        .join(",")
                ),
                Rhs::IpSet(items) => format!("[{}]", items.iter().map(ip_item_json).collect::<Vec<_>>().join(",")),
                Rhs::BytesSet(items) => format!(
                    "[{}]",
                    items.iter().map(|(b, f)| bytes_json(b, *f)).collect::<Vec<_>>().join(",")
                ),
            };
            format!("{{\"lhs\":{},\"op\":\"{opn}\",\"rhs\":{r}}}", lhs_json(lhs))
        }
        Expr::Not(e) => format!("{{\"op\":\"Not\",\"arg\":{}}}", expr_json(e)),
        Expr::Paren(e) => expr_json(e),
        Expr::Chain(op, items) => {
            let opn = match op {
                LOp::And => "And",
                LOp::Or => "Or",
                LOp::Xor => "Xor",
            };
            format!(
                "{{\"op\":\"{opn}\",\"items\":[{}]}}",
                items.iter().map(expr_json).collect::<Vec<_>>().join(",")
            )
        }
        Expr::Quant(q, a) => {
            let opn = match q {
                QOp::Any => "Any",
                QOp::All => "All",
            };
            let arg = match &**a {
                QArg::Lhs(l) => format!("{{\"kind\":\"IndexExpr\",\"value\":{}}}", lhs_json(l)),
                QArg::Logical(e) => format!("{{\"kind\":\"SimpleExpr\",\"value\":{}}}", expr_json(e)),
            };
            format!("{{\"op\":\"{opn}\",\"arg\":{arg}}}")
        }
    }
}
