//! C17 — `in $list` delegates exactly to the context's list matcher
//! (shape P: programs x names x registrations; shape H: BFS over matcher histories).

use crate::ast::*;
use crate::ev::{Run, Tier, guarded, ncpu, par_for};
use crate::prog::{Bench, case_json, check_filter, short_ctx};
use crate::sem::Env;
use crate::uni::{ListKind, MCtx, MLists, SetMatcher, Uni, install_sets, qlog_start, qlog_take, real_ctx};
use crate::unis;
use crate::val::{Ty, V};
use serde::de::DeserializeSeed;
use serde::{Deserialize, Serialize};
use serde_json::json;
use std::collections::{BTreeMap, BTreeSet, HashSet};
use std::sync::Mutex;
use wirefilter::{ExecutionContext, Filter, Scheme};

pub const ID: &str = "C17";

fn f(n: &str) -> Lhs {
    Lhs::field(n)
}
fn fp(n: &str, p: Vec<Idx>) -> Lhs {
    Lhs::fieldp(n, p)
}

/// Universe with the given list registrations (order matters: matchers are routed by registration index).
pub fn list_uni(lists: &[(Ty, ListKind)]) -> (String, Uni) {
    let (_, mut u) = unis::containers(true);
    u.lists = lists.to_vec();
    let tag = format!(
        "lists:{}",
        lists.iter().map(|(t, k)| format!("{}{}", t.short(), match k { ListKind::Set => "s", ListKind::Always => "a", ListKind::Never => "n" })).collect::<Vec<_>>().join("-")
    );
    (tag, u)
}

pub fn uni_by_tag(tag: &str) -> Option<Uni> {
    let spec = tag.strip_prefix("lists:")?;
    let mut lists = Vec::new();
    for part in spec.split('-').filter(|p| !p.is_empty()) {
        let (ty, k) = part.split_at(part.len() - 1);
        let ty = match ty {
            "Int" => Ty::Int,
            "Bytes" => Ty::Bytes,
            "Ip" => Ty::Ip,
            _ => return None,
        };
        let k = match k {
            "s" => ListKind::Set,
            "a" => ListKind::Always,
            _ => ListKind::Never,
        };
        lists.push((ty, k));
    }
    Some(list_uni(&lists).1)
}

/// left-hand sides per element type; the second component says whether the result is an array (needs a quantifier)
fn lhs_shapes(t: &Ty) -> Vec<(Lhs, bool)> {
    match t {
        Ty::Int => vec![
            (f("i"), false),
            (fp("xi", vec![Idx::N(0)]), false),
            (fp("xi", vec![Idx::Each]), true),
            (Lhs::call("len", vec![Arg::Lhs(f("s"))]), false),
            (Lhs::callp("inc", vec![Arg::Lhs(fp("xi", vec![Idx::Each]))], vec![Idx::Each]), true),
            (fp("xxi", vec![Idx::Each, Idx::Each]), true),
            (fp("mi", vec![Idx::K("a".into())]), false),
        ],
        Ty::Bytes => vec![
            (f("s"), false),
            (fp("xs", vec![Idx::N(1)]), false),
            (fp("xs", vec![Idx::Each]), true),
            (Lhs::call("idb", vec![Arg::Lhs(f("s"))]), false),
            (Lhs::callp("up", vec![Arg::Lhs(fp("xs", vec![Idx::Each]))], vec![Idx::Each]), true),
            (fp("ms", vec![Idx::Each]), true),
        ],
        _ => vec![(f("ip"), false), (fp("xip", vec![Idx::N(0)]), false), (fp("xip", vec![Idx::Each]), true)],
    }
}

fn in_list_exprs(l: &Lhs, arr: bool, name: &str) -> Vec<Expr> {
    let c = Expr::cmp(l.clone(), CmpOp::InList, Rhs::List(name.to_string()));
    if arr {
        vec![Expr::any(QArg::Logical(c.clone())), Expr::all(QArg::Logical(c.clone())), Expr::any(QArg::Logical(Expr::not(c)))]
    } else {
        vec![c.clone(), Expr::not(c)]
    }
}

fn ip(s: &str) -> V {
    V::Ip(s.parse().unwrap())
}
fn sb(s: &[u8]) -> V {
    V::Bytes(s.to_vec())
}

fn contexts() -> Vec<MCtx> {
    let mut out = Vec::new();
    let ints = [None, Some(1i64), Some(2), Some(i64::MIN)];
    let strs: [Option<&[u8]>; 3] = [None, Some(b"a"), Some(b"\xff")];
    let ips = [None, Some("1.2.3.4"), Some("::1")];
    for i in ints {
        for s in strs {
            for p in ips {
                let mut m = MCtx::new();
                if let Some(i) = i {
                    m.insert("i".into(), V::Int(i));
                    m.insert("xi".into(), V::arr(Ty::Int, vec![V::Int(i), V::Int(1), V::Int(7)]));
                    m.insert("xxi".into(), V::arr(Ty::arr(Ty::Int), vec![V::arr(Ty::Int, vec![V::Int(7)]), V::arr(Ty::Int, vec![]), V::arr(Ty::Int, vec![V::Int(i)])]));
                    m.insert("mi".into(), V::map(Ty::Int, vec![(b"a", V::Int(i))]));
                }
                if let Some(s) = s {
                    m.insert("s".into(), sb(s));
                    m.insert("xs".into(), V::arr(Ty::Bytes, vec![sb(b"zz"), sb(s)]));
                    m.insert("ms".into(), V::map(Ty::Bytes, vec![(b"k", sb(s)), (b"a", sb(b"A"))]));
                }
                if let Some(p) = p {
                    m.insert("ip".into(), ip(p));
                    m.insert("xip".into(), V::arr(Ty::Ip, vec![ip(p), ip("9.9.9.9")]));
                }
                out.push(m);
            }
        }
    }
    out
}

/// Named sets per type; the same names hold different contents per type so that mis-routing shows.
fn sets_for(u: &Uni, names: &[&str]) -> MLists {
    let mut l = MLists::new();
    for (idx, (t, k)) in u.lists.iter().enumerate() {
        if *k != ListKind::Set {
            continue;
        }
        let mut m: BTreeMap<String, BTreeSet<V>> = BTreeMap::new();
        for (ni, n) in names.iter().enumerate() {
            let vals: Vec<V> = match t {
                Ty::Int => vec![V::Int(1 + ni as i64), V::Int(i64::MIN)],
                Ty::Bytes => vec![if ni % 2 == 0 { sb(b"a") } else { sb(b"\xff") }, sb(b"A")],
                _ => vec![if ni % 2 == 0 { ip("1.2.3.4") } else { ip("::1") }],
            };
            m.insert((*n).to_string(), vals.into_iter().collect());
        }
        l.insert(idx, m);
    }
    l
}

pub fn check_queries(run: &Run, b: &Bench, e: &Expr) {
    let text = render(e);
    let Ok(Ok(ast)) = guarded(|| b.scheme.parse(&text).map_err(|e| e.to_string())) else { return };
    let Ok(flt) = guarded(|| ast.compile()) else { return };
    for i in 0..b.ctxs.len() {
        qlog_start();
        let r = guarded(|| flt.execute(&b.ctxs[i]));
        let real = qlog_take();
        if r.is_err() {
            continue;
        }
        let mut env = b.env(i);
        env.qlog = Some(Vec::new());
        env.eval_filter(e);
        let mut model = env.qlog.take().unwrap();
        // only the harness matcher records queries
        model.retain(|(_, v)| b.uni.list_for(&v.ty()).map(|ix| b.uni.lists[ix].1 == ListKind::Set).unwrap_or(false));
        run.eval(1);
        // How many operands of `and` / `or` and how many elements under any()/all() are evaluated,
        // and in which order, is the engine's business: every recorded query must be one the
        // reference makes when it evaluates everything (as often at most), and a filter without
        // such freedom must make exactly the reference's queries. Source-order short-circuit
        // evaluation (what the engine does today) is only counted.
        let in_order = real.len() <= model.len() && real[..] == model[..real.len()] && (real.len() == model.len() || matches!(e, Expr::Quant(..)));
        if in_order {
            run.count("query_logs_in_source_order", 1);
        }
        let mut env_full = b.env(i);
        env_full.qlog = Some(Vec::new());
        env_full.eager = true;
        env_full.eval_filter(e);
        let mut full = env_full.qlog.take().unwrap();
        full.retain(|(_, v)| b.uni.list_for(&v.ty()).map(|ix| b.uni.lists[ix].1 == ListKind::Set).unwrap_or(false));
        let count = |v: &Vec<(String, V)>| {
            let mut m = std::collections::BTreeMap::new();
            for q in v {
                *m.entry(format!("{q:?}")).or_insert(0usize) += 1;
            }
            m
        };
        let (cr, cf) = (count(&real), count(&full));
        let within = cr.iter().all(|(k, n)| cf.get(k).copied().unwrap_or(0) >= *n);
        let has_freedom = {
            let d = format!("{e:?}");
            d.contains("Chain(And") || d.contains("Chain(Or") || d.contains("Quant(")
        };
        let ok = within && (has_freedom || real == full);
        if ok {
            if !real.is_empty() {
                run.count("query_logs_nonempty", 1);
            }
        } else {
            run.violation(
                format!("{ID}:queries:{}:{text}", b.tag),
                format!("{text:?} on {:?}: matcher was queried with {:?}, reference {:?}", short_ctx(&b.mctxs[i]), real, model),
                case_json(&b.tag, "queries", &text, json!(e), Some(&b.mctxs[i]), json!({"lists": b.lists})),
            );
        }
    }
}

// ------------------------------------------------------------------------------------------------
// Histories

#[derive(Clone, Debug, PartialEq, Eq, PartialOrd, Ord, Serialize, Deserialize)]
pub struct HState {
    sets: MLists,
    i: Option<i64>,
}

#[derive(Clone, Debug, PartialEq, Eq, PartialOrd, Ord, Serialize, Deserialize)]
pub enum HOp {
    Insert { list: usize, name: String, val: usize },
    SetI(Option<i64>),
    Clear,
    RoundTrip,
    CloneReplace,
    /// insert into a named set through a `borrow_with` guard, then drop the guard
    GuardInsert { list: usize, name: String, val: usize },
    /// clear through a guard, then drop the guard
    GuardClear,
    /// deserialise the context's own JSON through a guard over a cleared context
    GuardRoundTrip,
    /// clear, put state into a matcher while no field has a value, clear again
    ClearInsertClear { list: usize },
}

fn hist_values(t: &Ty) -> Vec<V> {
    match t {
        Ty::Int => vec![V::Int(1), V::Int(2)],
        Ty::Bytes => vec![sb(b"a"), sb(b"\xff")],
        _ => vec![ip("1.2.3.4"), ip("::1")],
    }
}

struct HWorld {
    uni: Uni,
    scheme: Scheme,
    filters: Vec<(Expr, Filter)>,
}

fn hist_ops(u: &Uni) -> Vec<HOp> {
    let mut v = Vec::new();
    for (idx, (t, k)) in u.lists.iter().enumerate() {
        if *k == ListKind::Set {
            for n in ["a", "b.c"] {
                for val in 0..hist_values(t).len() {
                    v.push(HOp::Insert { list: idx, name: n.to_string(), val });
                }
            }
        }
    }
    v.extend([HOp::SetI(Some(1)), HOp::SetI(Some(2)), HOp::SetI(None), HOp::Clear, HOp::RoundTrip, HOp::CloneReplace]);
    // writes through a temporary borrow reach the original
    for (idx, (t, k)) in u.lists.iter().enumerate() {
        if *k == ListKind::Set {
            v.push(HOp::GuardInsert { list: idx, name: "a".to_string(), val: hist_values(t).len() - 1 });
        }
    }
    v.extend([HOp::GuardClear, HOp::GuardRoundTrip]);
    for (idx, (_, k)) in u.lists.iter().enumerate() {
        if *k == ListKind::Set {
            v.push(HOp::ClearInsertClear { list: idx });
        }
    }
    v
}

fn build_hctx(w: &HWorld, st: &HState) -> ExecutionContext<'static> {
    let mut m = MCtx::new();
    if let Some(i) = st.i {
        m.insert("i".into(), V::Int(i));
    }
    m.insert("s".into(), sb(b"a"));
    m.insert("ip".into(), ip("::1"));
    let mut ctx = real_ctx(&w.scheme, &m);
    install_sets(&w.scheme, &mut ctx, &w.uni, &st.sets);
    ctx
}

fn model_hctx(st: &HState) -> MCtx {
    let mut m = MCtx::new();
    if let Some(i) = st.i {
        m.insert("i".into(), V::Int(i));
    }
    m.insert("s".into(), sb(b"a"));
    m.insert("ip".into(), ip("::1"));
    m
}

fn hstep(w: &HWorld, ctx: ExecutionContext<'static>, st: &mut HState, op: &HOp) -> Result<ExecutionContext<'static>, String> {
    let mut ctx = ctx;
    match op {
        HOp::Insert { list, name, val } => {
            let (t, _) = &w.uni.lists[*list];
            let v = hist_values(t)[*val].clone();
            st.sets.entry(*list).or_default().entry(name.clone()).or_default().insert(v.clone());
            let l = w.scheme.get_list(&t.to_engine()).ok_or("list not registered")?;
            // both write accessors, alternating with the value inserted
            let m = if *val % 2 == 0 { ctx.get_list_matcher_mut(l) } else { ctx.get_list_matcher_mut_from_type(&t.to_engine()).ok_or("get_list_matcher_mut_from_type: no matcher for a registered type")? };
            let sm = (m.as_any_mut() as &mut dyn std::any::Any).downcast_mut::<SetMatcher>().ok_or("matcher for this type is not the one registered for it")?;
            sm.sets.entry(name.clone()).or_default().insert(v);
            Ok(ctx)
        }
        HOp::SetI(v) => {
            st.i = *v;
            match v {
                Some(i) => {
                    ctx.set_field_value(w.scheme.get_field("i").unwrap(), *i).map_err(|e| e.to_string())?;
                    Ok(ctx)
                }
                None => {
                    // there is no "unset": rebuild with the same matcher state through clone + clear of fields is
                    // not available either, so go through serialisation of everything but `i`
                    let mut st2 = st.clone();
                    st2.i = None;
                    Ok(build_hctx(w, &st2))
                }
            }
        }
        HOp::Clear => {
            st.sets.clear();
            st.i = None;
            ctx.clear();
            // `s` and `ip` are part of every state: set them again
            ctx.set_field_value(w.scheme.get_field("s").unwrap(), &b"a"[..]).map_err(|e| e.to_string())?;
            ctx.set_field_value(w.scheme.get_field("ip").unwrap(), "::1".parse::<std::net::IpAddr>().unwrap()).map_err(|e| e.to_string())?;
            Ok(ctx)
        }
        HOp::RoundTrip => {
            let text: &'static str = Box::leak(serde_json::to_string(&ctx).map_err(|e| e.to_string())?.into_boxed_str());
            let mut fresh = ExecutionContext::<()>::new(&w.scheme);
            fresh.deserialize(&mut serde_json::Deserializer::from_str(text)).map_err(|e| format!("own JSON rejected: {e}"))?;
            if fresh != ctx {
                return Err("context after a serialisation round trip is not equal to the original".into());
            }
            Ok(fresh)
        }
        HOp::GuardInsert { list, name, val } => {
            let (t, _) = &w.uni.lists[*list];
            let v = hist_values(t)[*val].clone();
            st.sets.entry(*list).or_default().entry(name.clone()).or_default().insert(v.clone());
            let l = w.scheme.get_list(&t.to_engine()).ok_or("list not registered")?;
            {
                let mut g = ctx.borrow_with(7u8);
                let m = g.get_list_matcher_mut(l);
                let sm = (m.as_any_mut() as &mut dyn std::any::Any).downcast_mut::<SetMatcher>().ok_or("matcher for this type is not the one registered for it")?;
                sm.sets.entry(name.clone()).or_default().insert(v);
            }
            Ok(ctx)
        }
        HOp::ClearInsertClear { list } => {
            st.sets.clear();
            st.i = None;
            ctx.clear();
            {
                // no field holds a value now; the matcher gets state all the same
                let (t, _) = &w.uni.lists[*list];
                let l = w.scheme.get_list(&t.to_engine()).ok_or("list not registered")?;
                let m = ctx.get_list_matcher_mut(l);
                let sm = (m.as_any_mut() as &mut dyn std::any::Any).downcast_mut::<SetMatcher>().ok_or("matcher for this type is not the one registered for it")?;
                for name in ["a", "b.c"] {
                    for v in hist_values(t) {
                        sm.sets.entry(name.to_string()).or_default().insert(v);
                    }
                }
            }
            ctx.clear();
            ctx.set_field_value(w.scheme.get_field("s").unwrap(), &b"a"[..]).map_err(|e| e.to_string())?;
            ctx.set_field_value(w.scheme.get_field("ip").unwrap(), "::1".parse::<std::net::IpAddr>().unwrap()).map_err(|e| e.to_string())?;
            Ok(ctx)
        }
        HOp::GuardClear => {
            st.sets.clear();
            st.i = None;
            {
                let mut g = ctx.borrow_with(7u8);
                g.clear();
                g.set_field_value(w.scheme.get_field("s").unwrap(), &b"a"[..]).map_err(|e| e.to_string())?;
                g.set_field_value(w.scheme.get_field("ip").unwrap(), "::1".parse::<std::net::IpAddr>().unwrap()).map_err(|e| e.to_string())?;
            }
            Ok(ctx)
        }
        HOp::GuardRoundTrip => {
            let text: &'static str = Box::leak(serde_json::to_string(&ctx).map_err(|e| e.to_string())?.into_boxed_str());
            let before = ctx.clone_with(());
            ctx.clear();
            {
                let mut g = ctx.borrow_with(7u8);
                (&mut *g).deserialize(&mut serde_json::Deserializer::from_str(text)).map_err(|e| format!("own JSON rejected through a guard: {e}"))?;
            }
            if ctx != before {
                return Err("context refilled from its own JSON through a guard is not equal to the original".into());
            }
            Ok(ctx)
        }
        HOp::CloneReplace => {
            let c = ctx.clone_with(());
            if c != ctx {
                return Err("clone differs from the original".into());
            }
            drop(ctx);
            Ok(c)
        }
    }
}

fn hobserve(w: &HWorld, ctx: &ExecutionContext<'static>, st: &HState, problems: &mut Vec<String>) -> String {
    let m = model_hctx(st);
    for (e, flt) in &w.filters {
        let mut env = Env::new(&w.uni, &m);
        env.lists = Some(&st.sets);
        let want = env.eval_filter(e);
        let got = guarded(|| flt.execute(ctx));
        if got != Ok(Ok(want)) {
            problems.push(format!("{} evaluates to {got:?}, reference {want}", render(e)));
        }
    }
    // the matcher state itself, through both read accessors
    for (idx, (t, kind)) in w.uni.lists.iter().enumerate() {
        if *kind != ListKind::Set {
            continue;
        }
        let want = st.sets.get(&idx).cloned().unwrap_or_default();
        let ty = t.to_engine();
        let by_ref = w.scheme.get_list(&ty).map(|l| ctx.get_list_matcher(l));
        let by_type = ctx.get_list_matcher_from_type(&ty);
        for (how, m) in [("get_list_matcher", by_ref), ("get_list_matcher_from_type", by_type)] {
            match m.and_then(|m| (m.as_any() as &dyn std::any::Any).downcast_ref::<SetMatcher>()) {
                None => problems.push(format!("{how}: no matcher of the registered kind for {}", t.short())),
                Some(sm) => {
                    let mut got = sm.sets.clone();
                    got.retain(|_, v| !v.is_empty());
                    let mut want = want.clone();
                    want.retain(|_, v| !v.is_empty());
                    if got != want {
                        problems.push(format!("{how}: the matcher for {} holds {got:?}, reference {want:?}", t.short()));
                    }
                }
            }
        }
    }
    if ctx.get_list_matcher_from_type(&wirefilter::Type::Bool).is_some() {
        problems.push("get_list_matcher_from_type(Bool) gives a matcher although no list is registered for Bool".into());
    }
    serde_json::to_string(ctx).unwrap_or_else(|e| format!("<{e}>"))
}

fn histories(run: &Run, tier: Tier, lists: &[(Ty, ListKind)]) -> (u64, u64) {
    let (tag, uni) = list_uni(lists);
    let scheme = uni.build();
    let mut fexprs: Vec<Expr> = Vec::new();
    for (t, _) in lists {
        for (l, arr) in lhs_shapes(t).into_iter().take(2) {
            for n in ["a", "b.c", "zz"] {
                fexprs.extend(in_list_exprs(&l, arr, n).into_iter().take(1));
            }
        }
    }
    let filters: Vec<(Expr, Filter)> = fexprs.into_iter().map(|e| { let f = scheme.parse(&render(&e)).expect("parses").compile(); (e, f) }).collect();
    let w = HWorld { uni: uni.clone(), scheme, filters };
    let ops = hist_ops(&uni);
    let max_depth = tier.pick(5usize, 7usize);
    let init = HState { sets: MLists::new(), i: None };
    let mut seen: HashSet<String> = HashSet::new();
    {
        let ctx = build_hctx(&w, &init);
        let mut p = Vec::new();
        seen.insert(hobserve(&w, &ctx, &init, &mut p));
    }
    // a state is reached by a real history: the context of a frontier state is obtained by
    // replaying that history on one live context from the initial state (not by constructing a
    // context that merely looks like the state), so that anything a step leaves behind inside the
    // context is still there when the next step runs
    let mut frontier: Vec<(HState, Vec<HOp>)> = vec![(init.clone(), vec![])];
    let (mut states, mut transitions) = (1u64, 0u64);
    for _depth in 1..=max_depth {
        let out: Mutex<Vec<((HState, Vec<HOp>), String)>> = Mutex::new(Vec::new());
        let fr = &frontier;
        par_for(fr.len(), ncpu(), |fi| {
            let mut local = Vec::new();
            for op in &ops {
                let mut st = fr[fi].0.clone();
                let r = guarded(|| {
                    let mut problems = Vec::new();
                    let mut ctx = build_hctx(&w, &init);
                    let mut replayed = init.clone();
                    for past in &fr[fi].1 {
                        match hstep(&w, ctx, &mut replayed, past) {
                            Ok(c) => ctx = c,
                            Err(e) => {
                                problems.push(format!("replaying {past:?}: {e}"));
                                return (problems, String::new());
                            }
                        }
                    }
                    match hstep(&w, ctx, &mut st, op) {
                        Err(e) => {
                            problems.push(e);
                            (problems, String::new())
                        }
                        Ok(ctx2) => {
                            let key = hobserve(&w, &ctx2, &st, &mut problems);
                            (problems, key)
                        }
                    }
                });
                match r {
                    Err(p) => run.violation(
                        format!("{ID}:history-panic:{tag}:{op:?}"),
                        format!("[{tag}] after {:?} (state {:?}): {op:?} panicked: {p}", fr[fi].1, fr[fi].0),
                        json!({"kind": "c17-step", "universe": tag, "state": fr[fi].0, "history": fr[fi].1, "op": op}),
                    ),
                    Ok((problems, key)) => {
                        for p in &problems {
                            run.violation(
                                format!("{ID}:history:{tag}:{op:?}:{p}"),
                                format!("[{tag}] after {:?} (state {:?}): {op:?}: {p}", fr[fi].1, fr[fi].0),
                                json!({"kind": "c17-step", "universe": tag, "state": fr[fi].0, "history": fr[fi].1, "op": op}),
                            );
                        }
                        if problems.is_empty() {
                            let mut path = fr[fi].1.clone();
                            path.push(op.clone());
                            local.push(((st, path), key));
                        }
                    }
                }
            }
            out.lock().unwrap().extend(local);
        });
        let mut res = out.into_inner().unwrap();
        res.sort();
        let mut next = Vec::new();
        for (st, key) in res {
            transitions += 1;
            if seen.insert(key) {
                states += 1;
                next.push(st);
            }
        }
        frontier = next;
        if frontier.is_empty() {
            break;
        }
    }
    (states, transitions)
}

/// Every sequence of list registrations (always / never list for Int, Bytes, Ip), refused
/// duplicates included: `x in $name` is answered by the list whose registration for x's type was
/// accepted - the first one - whatever was attempted afterwards.
fn registration_histories(run: &Run, tier: Tier) {
    use wirefilter::{AlwaysList, NeverList, SchemeBuilder, Type};
    let ops: [(Type, bool); 6] = [(Type::Int, true), (Type::Int, false), (Type::Bytes, true), (Type::Bytes, false), (Type::Ip, true), (Type::Ip, false)];
    let probes: [(Type, &str); 3] = [(Type::Int, "i in $any.name"), (Type::Bytes, "s in $any.name"), (Type::Ip, "any(xip[*] in $any.name)")];
    let max = tier.pick(4usize, 5usize);
    for len in 0..=max {
        for code in 0..ops.len().pow(len as u32) {
            let mut x = code;
            let hist: Vec<(Type, bool)> = (0..len)
                .map(|_| {
                    let o = ops[x % ops.len()];
                    x /= ops.len();
                    o
                })
                .collect();
            run.eval(1);
            run.count("registration_histories", 1);
            let r = guarded(|| -> Vec<String> {
                let mut problems = Vec::new();
                let mut b = SchemeBuilder::new();
                b.add_field("i", Type::Int).unwrap();
                b.add_field("s", Type::Bytes).unwrap();
                b.add_field("xip", Type::Array(Type::Ip.into())).unwrap();
                let mut model: Vec<(Type, bool)> = Vec::new();
                for (k, (ty, always)) in hist.iter().enumerate() {
                    let got = if *always { b.add_list(*ty, AlwaysList {}).is_ok() } else { b.add_list(*ty, NeverList {}).is_ok() };
                    let want = !model.iter().any(|(t, _)| t == ty);
                    if want {
                        model.push((*ty, *always));
                    }
                    if got != want {
                        problems.push(format!("registration {k} ({ty:?}) {}", if got { "was accepted" } else { "was refused" }));
                    }
                }
                let scheme = b.build();
                let mut ctx = wirefilter::ExecutionContext::<()>::new(&scheme);
                ctx.set_field_value(scheme.get_field("i").unwrap(), 1i64).unwrap();
                ctx.set_field_value(scheme.get_field("s").unwrap(), "a").unwrap();
                let ips = wirefilter::Array::try_from_iter(Type::Ip, [std::net::IpAddr::from([1u8, 2, 3, 4]), std::net::IpAddr::from([0u16, 0, 0, 0, 0, 0, 0, 1])]).unwrap();
                ctx.set_field_value(scheme.get_field("xip").unwrap(), ips).unwrap();
                for (ty, text) in probes {
                    let want = model.iter().find(|(t, _)| *t == ty).map(|(_, a)| *a);
                    let got = match scheme.parse(text) {
                        Err(_) => None,
                        Ok(ast) => Some(ast.compile().execute(&ctx).expect("same scheme")),
                    };
                    if got != want {
                        problems.push(format!("{text:?} gives {got:?} (None = rejected at parse time), the accepted registration says {want:?}"));
                    }
                    if want.is_some() {
                        run.count("registration_probes_answered", 1);
                    }
                }
                problems
            });
            let problems = match r {
                Ok(p) => p,
                Err(p) => vec![format!("panicked: {p}")],
            };
            for p in problems {
                run.violation(
                    format!("{ID}:registrations:{hist:?}"),
                    format!("list registrations {hist:?} (type, always-list?): {p}"),
                    json!({"kind": "c17-registrations", "history": format!("{hist:?}")}),
                );
            }
        }
    }
}

pub fn run(tier: Tier, seed: u64) -> i32 {
    let run = Run::new(ID, "model_checking", tier, seed);
    run.assume("the harness list matcher (named sets, records every query) is registered for the types under test; built-in always/never lists are used as they are");
    let ctxs = contexts();
    let mut total_states = 0u64;
    let mut total_transitions = 0u64;

    // ---- (1) every registration order / subset of set-lists for Int, Ip, Bytes --------------------
    let types = [Ty::Int, Ty::Ip, Ty::Bytes];
    let mut regs: Vec<Vec<Ty>> = vec![vec![]];
    for a in 0..3 {
        regs.push(vec![types[a].clone()]);
        for b in 0..3 {
            if b != a {
                regs.push(vec![types[a].clone(), types[b].clone()]);
                for c in 0..3 {
                    if c != a && c != b {
                        regs.push(vec![types[a].clone(), types[b].clone(), types[c].clone()]);
                    }
                }
            }
        }
    }
    let names_valid = ["a", "b.c", "z_0", "0", "_", "a.a"];
    for reg in &regs {
        let lists: Vec<(Ty, ListKind)> = reg.iter().map(|t| (t.clone(), ListKind::Set)).collect();
        let (tag, uni) = list_uni(&lists);
        let sets = sets_for(&uni, &names_valid);
        let b = Bench::with_lists(&tag, uni.clone(), ctxs.clone(), Some(sets));
        for t in &types {
            for (l, arr) in lhs_shapes(t) {
                for n in names_valid.iter().chain(["unset"].iter()) {
                    for e in in_list_exprs(&l, arr, n) {
                        if uni.list_for(t).is_some() {
                            check_filter(&run, ID, &b, &e);
                            check_queries(&run, &b, &e);
                            run.count("in_list_filters", 1);
                        } else {
                            // no list registered for the type: rejected at parse time
                            let text = render(&e);
                            let got = guarded(|| b.scheme.parse(&text).is_ok());
                            run.eval(1);
                            run.count("no_list_rejections", 1);
                            if got != Ok(false) {
                                run.violation(
                                    format!("{ID}:no-list-accepted:{tag}:{text}"),
                                    format!("[{tag}] {text:?} accepted although no list is registered for {}", t.short()),
                                    json!({"kind": "c17-text", "universe": tag, "text": text, "expect": "reject"}),
                                );
                            }
                        }
                    }
                }
            }
        }
        run.count("registrations", 1);
    }

    // ---- (2) list names: every string of length <= 3 over {a,z,0,_,.} + the invalid set ----------------
    {
        let (tag, uni) = list_uni(&[(Ty::Int, ListKind::Set)]);
        let scheme = uni.build();
        let alphabet = ['a', 'z', '0', '_', '.'];
        let mut names: Vec<String> = vec![String::new()];
        let mut level = vec![String::new()];
        for _ in 0..3 {
            let mut next = Vec::new();
            for p in &level {
                for c in alphabet {
                    next.push(format!("{p}{c}"));
                }
            }
            names.extend(next.iter().cloned());
            level = next;
        }
        for bad in ["A", "aB", "a-b", "é", "a é", "a$", "$a", "a b", "-", "a..", "..a"] {
            names.push(bad.to_string());
        }
        let mut mset = MLists::new();
        let mut m = BTreeMap::new();
        for n in &names {
            m.insert(n.clone(), [V::Int(1)].into_iter().collect::<BTreeSet<V>>());
        }
        mset.insert(0, m);
        let mut c1 = MCtx::new();
        c1.insert("i".into(), V::Int(1));
        let mut c2 = MCtx::new();
        c2.insert("i".into(), V::Int(5));
        let b = Bench::with_lists(&tag, uni.clone(), vec![c1, c2, MCtx::new()], Some(mset));
        for n in &names {
            let valid = !n.is_empty() && n.chars().all(|c| matches!(c, 'a'..='z' | '0'..='9' | '_' | '.')) && !n.starts_with('.') && !n.ends_with('.');
            for tmpl in ["i in ${}", "(i in ${})", "i in ${} and t", "not i in ${} or t"] {
                let text = tmpl.replace("{}", n);
                run.eval(1);
                run.count("list_names", 1);
                let got = guarded(|| scheme.parse(&text).map(|a| serde_json::to_string(&a).unwrap()).map_err(|_| ()));
                match (valid, &got) {
                    (false, Ok(Err(()))) => {}
                    (true, Ok(Ok(js))) => {
                        if !js.contains(&format!("\"op\":\"InList\",\"rhs\":{}", serde_json::to_string(n).unwrap())) {
                            run.violation(
                                format!("{ID}:list-name-decoded:{text}"),
                                format!("{text:?}: the AST does not carry the list name {n:?}: {js}"),
                                json!({"kind": "c17-text", "universe": tag, "text": text, "expect": "accept"}),
                            );
                        }
                    }
                    _ => run.violation(
                        format!("{ID}:list-name:{text}"),
                        format!("{text:?}: engine {got:?}, reference valid={valid}"),
                        json!({"kind": "c17-text", "universe": tag, "text": text, "expect": if valid { "accept" } else { "reject" }}),
                    ),
                }
            }
            if valid {
                // the matcher is asked for exactly this name
                let e = Expr::cmp(f("i"), CmpOp::InList, Rhs::List(n.clone()));
                check_filter(&run, ID, &b, &e);
                check_queries(&run, &b, &e);
            }
        }
    }

    // ---- (3) built-in always / never lists on all three types, every lhs shape, also after clear and a round trip
    for kinds in [[ListKind::Always, ListKind::Never, ListKind::Always], [ListKind::Never, ListKind::Always, ListKind::Never]] {
        let lists: Vec<(Ty, ListKind)> = vec![(Ty::Int, kinds[0]), (Ty::Bytes, kinds[1]), (Ty::Ip, kinds[2])];
        let (tag, uni) = list_uni(&lists);
        let b = Bench::with_lists(&tag, uni.clone(), ctxs.clone(), None);
        let mut fs: Vec<Expr> = Vec::new();
        for t in &types {
            for (l, arr) in lhs_shapes(t) {
                fs.extend(in_list_exprs(&l, arr, "any.name"));
            }
        }
        for e in &fs {
            check_filter(&run, ID, &b, e);
            run.count("builtin_list_filters", 1);
        }
        // the same answers from contexts that went through clear+refill, clone, and serialisation
        let compiled: Vec<(Expr, Filter)> = fs.iter().map(|e| (e.clone(), b.scheme.parse(&render(e)).unwrap().compile())).collect();
        for (ci, m) in ctxs.iter().enumerate() {
            let r = guarded(|| {
                let mut problems = Vec::new();
                let ctx = real_ctx(&b.scheme, m);
                let text: &'static str = Box::leak(serde_json::to_string(&ctx).unwrap().into_boxed_str());
                let mut fresh = ExecutionContext::<()>::new(&b.scheme);
                if let Err(e) = fresh.deserialize(&mut serde_json::Deserializer::from_str(text)) {
                    problems.push(format!("own JSON rejected: {e}"));
                }
                let cloned = fresh.clone_with(());
                let mut cleared = real_ctx(&b.scheme, m);
                cleared.clear();
                for (name, v) in m {
                    cleared.set_field_value(b.scheme.get_field(name).unwrap(), v.to_engine()).unwrap();
                }
                for (e, flt) in &compiled {
                    let want = b.env(ci).eval_filter(e);
                    for (label, c) in [("deserialised", &fresh), ("clone of deserialised", &cloned), ("cleared and refilled", &cleared)] {
                        if flt.execute(c) != Ok(want) {
                            problems.push(format!("{} on the {label} context differs from the reference {want}", render(e)));
                        }
                    }
                }
                problems
            });
            run.eval(compiled.len() as u64 * 3);
            for p in r.unwrap_or_else(|p| vec![format!("panicked: {p}")]) {
                run.violation(
                    format!("{ID}:builtin:{tag}:{p}"),
                    format!("[{tag}] context {}: {p}", short_ctx(m)),
                    json!({"kind": "c17-builtin", "universe": tag, "ctx": m}),
                );
            }
        }
    }

    // ---- (4) histories: matcher state is what executions see, survives round trips, emptied by clear ---------
    for lists in [
        vec![(Ty::Int, ListKind::Set)],
        vec![(Ty::Bytes, ListKind::Set), (Ty::Int, ListKind::Set)],
        vec![(Ty::Ip, ListKind::Never), (Ty::Int, ListKind::Set), (Ty::Bytes, ListKind::Always)],
    ] {
        let (s, t) = histories(&run, tier, &lists);
        total_states += s;
        total_transitions += t;
    }
    registration_histories(&run, tier);
    run.eval(total_transitions);
    run.set("states", json!(total_states));
    run.set("transitions", json!(total_transitions));
    run.set("traces_validated_against_impl", json!(total_transitions));
    run.count("states", total_states);
    run.sample(6, || json!({"filter": "any(up(xs[*])[*] in $b.c)", "registration_order": "Bytes, Int", "expected_queries": [["b.c", {"Bytes": [90, 90]}], ["b.c", {"Bytes": [65]}]]}));
    run.sample(6, || json!({"history": ["Insert{list:0,name:a,val:0}", "RoundTrip", "Clear", "Insert{list:1,name:b.c,val:1}"], "observation": "all in-list filters evaluated after every step; state key = serialised context"}));
    run.finish(
        total_states,
        "all 16 registration orders / subsets of harness set-lists for Int, Ip, Bytes x every left-hand-side shape x list names x 36 contexts (results and recorded (name, value) queries); every list name of length <=3 over {a,z,0,_,.} and an invalid set in four positions; built-in always/never lists on every shape incl. after clear, clone and round trip; BFS over {insert, set field, clear, serialise->deserialise, clone} histories with dedup on the serialised context",
        true,
        &[("in_list_filters", 1000), ("no_list_rejections", 100), ("list_names", 500), ("query_logs_nonempty", 1000), ("builtin_list_filters", 50), ("states", 50)],
    )
}

pub fn replay(case: &serde_json::Value) -> Result<u64, String> {
    match case["kind"].as_str().unwrap_or("") {
        "c17-text" => {
            let tag = case["universe"].as_str().ok_or("universe")?;
            let uni = uni_by_tag(tag).ok_or("bad tag")?;
            let scheme = uni.build();
            let text = case["text"].as_str().ok_or("text")?;
            let ok = guarded(|| scheme.parse(text).is_ok());
            let want = case["expect"] == "accept";
            Ok(if ok == Ok(want) { 0 } else { 1 })
        }
        "c17-step" => {
            let tag = case["universe"].as_str().ok_or("universe")?;
            let uni = uni_by_tag(tag).ok_or("bad tag")?;
            let run = Run::new("replay", "model_checking", Tier::Quick, 0);
            // re-run the whole bounded exploration for this registration (cheap)
            histories(&run, Tier::Quick, &uni.lists);
            Ok(run.violations_seen())
        }
        "c17-builtin" => Err("re-run `./run.sh C17 quick` (the built-in list section is a few hundred cases)".into()),
        _ => Err("unknown C17 case".into()),
    }
}
