//! C07 — the AST and its JSON are a canonical image of filter structure (shape P, exhaustive).

use crate::ast::*;
use crate::corpus;
use crate::ev::{Run, Tier, guarded, ncpu, par_for};
use crate::prog::case_json;
use crate::sem::{expr_json, filter_ok};
use crate::unis;
use serde_json::json;
use std::collections::BTreeMap;
use std::hash::{Hash, Hasher};
use std::sync::Mutex;
use std::sync::atomic::{AtomicU64, Ordering};
use wirefilter::FilterAst;

pub const ID: &str = "C07";

fn std_hash(a: &FilterAst) -> u64 {
    let mut h = std::collections::hash_map::DefaultHasher::new();
    a.hash(&mut h);
    h.finish()
}

fn ffi_hash(a: &FilterAst) -> Option<u64> {
    let f = wirefilter_ffi::FilterAst::from(a.clone());
    let r = wirefilter_ffi::wirefilter_get_filter_hash(&f);
    if r.status == wirefilter_ffi::Status::Success { Some(r.hash) } else { None }
}

/// Structure normal form for the injectivity check: what the JSON is supposed to determine.
fn normal_form(e: &Expr) -> String {
    fn lit(l: &Lit) -> String {
        match l {
            Lit::Int(i, _) => format!("I{i}"),
            Lit::Bytes(b, BytesForm::Hex(_)) => format!("H{b:?}"),
            // a quoted/raw literal that is not UTF-8 serialises as a byte list, like a hex literal
            Lit::Bytes(b, _) if std::str::from_utf8(b).is_err() => format!("H{b:?}"),
            Lit::Bytes(b, _) => format!("S{b:?}"),
            Lit::Ip(ip) => format!("P{ip}"),
        }
    }
    fn lhs(l: &Lhs) -> String {
        let id = match &l.id {
            Ident::Field(n) => format!("f:{n}"),
            Ident::Call(n, args) => format!(
                "c:{n}({})",
                args.iter()
                    .map(|a| match a {
                        Arg::Lhs(l) => format!("L{}", lhs(l)),
                        Arg::Lit(l) => format!("C{}", lit(l)),
                        Arg::Logical(e) => format!("E{}", normal_form(e)),
                    })
                    .collect::<Vec<_>>()
                    .join(",")
            ),
        };
        format!("{id}{:?}", l.path)
    }
    match e {
        Expr::IsTrue(l) => format!("T({})", lhs(l)),
        Expr::Cmp { lhs: l, op, rhs } => {
            let r = match rhs {
                Rhs::Lit(l) => lit(l),
                Rhs::Regex(p, _) => format!("R{p:?}"),
                Rhs::List(n) => format!("N{n}"),
                Rhs::IntSet(v) => format!("IS{:?}", v.iter().map(|i| (i.lo, i.hi.unwrap_or(i.lo))).collect::<Vec<_>>()),
                Rhs::IpSet(v) => format!(
                    "PS{:?}",
                    v.iter()
                        .map(|i| match i {
                            // a host CIDR and a bare address serialise alike
                            IpItem::Addr(a) => format!("a{a}"),
                            IpItem::Cidr(a, p) if (*p == 32 && a.is_ipv4()) || (*p == 128 && a.is_ipv6()) => format!("a{a}"),
                            IpItem::Cidr(a, p) => format!("c{a}/{p}"),
                            IpItem::Range(a, b) => format!("r{a}-{b}"),
                        })
                        .collect::<Vec<_>>()
                ),
                Rhs::BytesSet(v) => format!("BS{:?}", v.iter().map(|(b, f)| lit(&Lit::Bytes(b.clone(), *f))).collect::<Vec<_>>()),
            };
            format!("C({},{op:?},{r})", lhs(l))
        }
        Expr::Not(e) => format!("N({})", normal_form(e)),
        Expr::Paren(e) => normal_form(e), // parentheses are visible only as nesting
        Expr::Chain(op, items) => format!("{op:?}[{}]", items.iter().map(normal_form).collect::<Vec<_>>().join(";")),
        Expr::Quant(q, a) => match &**a {
            QArg::Lhs(l) => format!("{q:?}<L{}>", lhs(l)),
            QArg::Logical(e) => format!("{q:?}<E{}>", normal_form(e)),
        },
    }
}

/// The same program with every quoted string / regex literal written raw and every raw one
/// quoted (hex literals stay); `None` if nothing changes.
fn flip_literal_forms(e: &Expr) -> Option<Expr> {
    fn form(b: &[u8], f: BytesForm, changed: &mut bool) -> BytesForm {
        match f {
            BytesForm::Quoted => match (0u8..=3).find(|n| raw_form_ok(b, *n)) {
                Some(n) => {
                    *changed = true;
                    BytesForm::Raw(n)
                }
                None => f,
            },
            BytesForm::Raw(_) => {
                *changed = true;
                BytesForm::Quoted
            }
            BytesForm::Hex(_) => f,
        }
    }
    fn lit(l: &Lit, c: &mut bool) -> Lit {
        match l {
            Lit::Bytes(b, f) => Lit::Bytes(b.clone(), form(b, *f, c)),
            other => other.clone(),
        }
    }
    fn lhs(l: &Lhs, c: &mut bool) -> Lhs {
        let id = match &l.id {
            Ident::Field(n) => Ident::Field(n.clone()),
            Ident::Call(n, args) => Ident::Call(
                n.clone(),
                args.iter()
                    .map(|a| match a {
                        Arg::Lhs(x) => Arg::Lhs(lhs(x, c)),
                        Arg::Lit(x) => Arg::Lit(lit(x, c)),
                        Arg::Logical(x) => Arg::Logical(expr(x, c)),
                    })
                    .collect(),
            ),
        };
        Lhs { id, path: l.path.clone() }
    }
    fn expr(e: &Expr, c: &mut bool) -> Expr {
        match e {
            Expr::IsTrue(l) => Expr::IsTrue(lhs(l, c)),
            Expr::Cmp { lhs: l, op, rhs } => {
                let r = match rhs {
                    Rhs::Lit(x) => Rhs::Lit(lit(x, c)),
                    Rhs::Regex(p, f) => Rhs::Regex(p.clone(), form(p.as_bytes(), *f, c)),
                    Rhs::BytesSet(v) => Rhs::BytesSet(v.iter().map(|(b, f)| (b.clone(), form(b, *f, c))).collect()),
                    other => other.clone(),
                };
                Expr::Cmp { lhs: lhs(l, c), op: *op, rhs: r }
            }
            Expr::Not(x) => Expr::Not(Box::new(expr(x, c))),
            Expr::Paren(x) => Expr::Paren(Box::new(expr(x, c))),
            Expr::Chain(op, items) => Expr::Chain(*op, items.iter().map(|x| expr(x, c)).collect()),
            Expr::Quant(q, a) => Expr::Quant(
                *q,
                Box::new(match &**a {
                    QArg::Lhs(l) => QArg::Lhs(lhs(l, c)),
                    QArg::Logical(x) => QArg::Logical(expr(x, c)),
                }),
            ),
        }
    }
    let mut changed = false;
    let out = expr(e, &mut changed);
    if changed { Some(out) } else { None }
}

/// Programs that differ from `e` in exactly one literal (the ASCII case of one letter of a string,
/// regex or wildcard literal flipped; an integer literal increased by one).
fn literal_neighbours(e: &Expr) -> Vec<Expr> {
    fn flip_case(b: &[u8]) -> Option<Vec<u8>> {
        let i = b.iter().position(|c| c.is_ascii_alphabetic())?;
        // keep escapes intact: do not touch a letter that follows a backslash
        if i > 0 && b[i - 1] == b'\\' {
            return None;
        }
        let mut v = b.to_vec();
        v[i] ^= 0x20;
        Some(v)
    }
    // every position of a literal is numbered in traversal order; `target` selects the one to change
    fn lit(l: &Lit, k: &mut usize, target: usize) -> Lit {
        let here = *k;
        *k += 1;
        if here != target {
            return l.clone();
        }
        match l {
            Lit::Int(i, f) if *i < i64::MAX => Lit::Int(i + 1, *f),
            Lit::Bytes(b, f) => match flip_case(b) {
                Some(v) => Lit::Bytes(v, *f),
                None => l.clone(),
            },
            other => other.clone(),
        }
    }
    fn lhs(l: &Lhs, k: &mut usize, t: usize) -> Lhs {
        let id = match &l.id {
            Ident::Field(n) => Ident::Field(n.clone()),
            Ident::Call(n, args) => Ident::Call(
                n.clone(),
                args.iter()
                    .map(|a| match a {
                        Arg::Lhs(x) => Arg::Lhs(lhs(x, k, t)),
                        Arg::Lit(x) => Arg::Lit(lit(x, k, t)),
                        Arg::Logical(x) => Arg::Logical(expr(x, k, t)),
                    })
                    .collect(),
            ),
        };
        Lhs { id, path: l.path.clone() }
    }
    fn expr(e: &Expr, k: &mut usize, t: usize) -> Expr {
        match e {
            Expr::IsTrue(l) => Expr::IsTrue(lhs(l, k, t)),
            Expr::Cmp { lhs: l, op, rhs } => {
                let l2 = lhs(l, k, t);
                let r = match rhs {
                    Rhs::Lit(x) => Rhs::Lit(lit(x, k, t)),
                    Rhs::Regex(p, f) => {
                        let here = *k;
                        *k += 1;
                        match (here == t).then(|| flip_case(p.as_bytes())).flatten().and_then(|v| String::from_utf8(v).ok()) {
                            Some(q) => Rhs::Regex(q, *f),
                            None => rhs.clone(),
                        }
                    }
                    Rhs::BytesSet(v) => Rhs::BytesSet(
                        v.iter()
                            .map(|(b, f)| match lit(&Lit::Bytes(b.clone(), *f), k, t) {
                                Lit::Bytes(b2, f2) => (b2, f2),
                                _ => (b.clone(), *f),
                            })
                            .collect(),
                    ),
                    other => other.clone(),
                };
                Expr::Cmp { lhs: l2, op: *op, rhs: r }
            }
            Expr::Not(x) => Expr::Not(Box::new(expr(x, k, t))),
            Expr::Paren(x) => Expr::Paren(Box::new(expr(x, k, t))),
            Expr::Chain(op, items) => Expr::Chain(*op, items.iter().map(|x| expr(x, k, t)).collect()),
            Expr::Quant(q, a) => Expr::Quant(
                *q,
                Box::new(match &**a {
                    QArg::Lhs(l) => QArg::Lhs(lhs(l, k, t)),
                    QArg::Logical(x) => QArg::Logical(expr(x, k, t)),
                }),
            ),
        }
    }
    let mut total = 0usize;
    let _ = expr(e, &mut total, usize::MAX);
    let mut out = Vec::new();
    // an array index changed by one
    {
        fn bump(l: &Lhs) -> Option<Lhs> {
            let mut l2 = l.clone();
            for i in l2.path.iter_mut() {
                if let Idx::N(n) = i {
                    *i = Idx::N(n.wrapping_add(1));
                    return Some(l2);
                }
            }
            None
        }
        match e {
            Expr::Cmp { lhs: l, op, rhs } => {
                if let Some(l2) = bump(l) {
                    out.push(Expr::Cmp { lhs: l2, op: *op, rhs: rhs.clone() });
                }
            }
            Expr::IsTrue(l) => {
                if let Some(l2) = bump(l) {
                    out.push(Expr::IsTrue(l2));
                }
            }
            _ => {}
        }
    }
    for t in 0..total.min(6) {
        let mut k = 0usize;
        let v = expr(e, &mut k, t);
        if v != *e {
            out.push(v);
        }
    }
    out
}

pub fn run(tier: Tier, seed: u64) -> i32 {
    let run = Run::new(ID, "exploration", tier, seed);
    run.assume("expected JSON documents come from the reference serialiser (sem::expr_json); whitespace alphabet: space, CR, LF between tokens, any Unicode whitespace around the filter");
    let (tag, uni) = unis::containers(true);
    let scheme = uni.build();
    let mut programs: Vec<Expr> = corpus::filters(&uni, tier.pick(5, 9));
    // the C01 structure layer up to 3 operators over plain booleans
    {
        let props = ["t", "u"];
        let ops3 = [LOp::And, LOp::Xor, LOp::Or];
        for k in 1..=3usize {
            let n = k + 1;
            for code in 0..(3usize.pow(k as u32) * 2usize.pow(n as u32)) {
                let mut x = code;
                let mut ops = Vec::new();
                for _ in 0..k {
                    ops.push(ops3[x % 3]);
                    x /= 3;
                }
                let operands: Vec<Expr> = (0..n)
                    .map(|i| {
                        let e = Expr::IsTrue(Lhs::field(props[i % 2]));
                        let neg = x % 2 == 1;
                        x /= 2;
                        if neg { Expr::not(e) } else { e }
                    })
                    .collect();
                programs.push(super::c01::build_flat(&operands, &ops));
                for lo in 0..n {
                    for hi in lo + 1..n {
                        programs.push(super::c01::build_with_paren(&operands, &ops, Some((lo, hi))));
                    }
                }
            }
        }
    }
    programs.retain(|e| e.canonical() && filter_ok(&uni, e).is_ok());
    programs.sort();
    programs.dedup();
    run.set("programs", json!(programs.len()));

    let json_to_nf: Mutex<BTreeMap<String, String>> = Mutex::new(BTreeMap::new());
    let spellings = AtomicU64::new(0);
    let multi = AtomicU64::new(0);
    let ws_layouts: Vec<Option<String>> =
        vec![None, Some(" ".into()), Some("  ".into()), Some("\n".into()), Some(" \r\n ".into())];

    par_for(programs.len(), ncpu(), |pi| {
        let e = &programs[pi];
        let mut toks = Vec::new();
        toks_expr(e, &mut toks);
        let (k, g) = count_ops_gaps(&toks);
        let expected = expr_json(e);
        let mut texts: Vec<String> = Vec::new();
        // every alias assignment (first 8 operator occurrences) x {minimal, single-space} layouts
        let kk = k.min(8);
        for mask in 0..(1usize << kk) {
            let aliases: Vec<usize> = (0..k).map(|i| if i < kk { (mask >> i) & 1 } else { i % 2 }).collect();
            for ws in [None, Some(" ".to_string())] {
                texts.push(spell(&toks, &Spelling { aliases: aliases.clone(), all_gaps: ws, ..Default::default() }));
            }
        }
        // every whitespace layout for the all-words and all-symbols spellings
        for alias in [0usize, 1] {
            for ws in &ws_layouts {
                texts.push(spell(&toks, &Spelling { all_alias: Some(alias), all_gaps: ws.clone(), ..Default::default() }));
            }
            // each single gap varied alone
            for gi in 0..g {
                let mut gaps: Vec<Option<String>> = vec![None; g];
                gaps[gi] = Some("\n \r ".to_string());
                texts.push(spell(&toks, &Spelling { all_alias: Some(alias), gaps, ..Default::default() }));
            }
        }
        // Unicode whitespace around the whole filter
        let base = texts[0].clone();
        for (pre, post) in [("\t", "\t"), ("\u{a0} ", "\u{2003}"), ("\n\n", " \u{85}"), ("\u{3000}", "\u{b}\u{c}")] {
            texts.push(format!("{pre}{base}{post}"));
        }
        texts.sort();
        texts.dedup();
        if texts.len() > 1 {
            multi.fetch_add(1, Ordering::Relaxed);
        }
        let mut reference: Option<(FilterAst, String, Option<u64>, u64)> = None;
        for text in &texts {
            spellings.fetch_add(1, Ordering::Relaxed);
            run.eval(1);
            let ast = match guarded(|| scheme.parse(text).map_err(|e| e.to_string())) {
                Ok(Ok(a)) => a,
                other => {
                    run.violation(
                        format!("{ID}:spelling-rejected:{text}"),
                        format!("a spelling of a well-typed filter was not accepted: {text:?}: {other:?}"),
                        case_json(&tag, "spelling", text, json!(e), None, json!({"canonical": render(e)})),
                    );
                    continue;
                }
            };
            let js = serde_json::to_string(&ast).unwrap_or_else(|e| format!("<serialize error {e}>"));
            let js2 = serde_json::to_string(&ast).unwrap_or_default();
            let fh = ffi_hash(&ast);
            let sh = std_hash(&ast);
            if js != js2 {
                run.violation(
                    format!("{ID}:nondeterministic-json:{text}"),
                    format!("serialising {text:?} twice gave different documents"),
                    case_json(&tag, "spelling", text, json!(e), None, json!({})),
                );
            }
            if js != expected {
                run.violation(
                    format!("{ID}:json:{}", render(e)),
                    format!("JSON of {text:?} is {js}, expected {expected}"),
                    case_json(&tag, "spelling", text, json!(e), None, json!({"engine": js, "expected": expected})),
                );
            }
            match &reference {
                None => reference = Some((ast, js, fh, sh)),
                Some((rast, rjs, rfh, rsh)) => {
                    if *rast != ast || *rjs != js || *rfh != fh || fh.is_none() || *rsh != sh {
                        run.violation(
                            format!("{ID}:spelling-differs:{}", render(e)),
                            format!(
                                "two spellings of one structure differ: {:?} vs {text:?} (ast equal: {}, json equal: {}, C hash equal: {}, Hash equal: {})",
                                texts[0],
                                *rast == ast,
                                *rjs == js,
                                *rfh == fh,
                                *rsh == sh
                            ),
                            case_json(&tag, "spelling-pair", text, json!(e), None, json!({"other": texts[0]})),
                        );
                    }
                }
            }
        }
        // the same program with its string / regex literals written in the other form (quoted <->
        // raw): whether that is the *same* AST is the engine's choice, but if the two compare equal
        // they must agree on everything derived from the AST (JSON, C hash, Hash)
        if let (Some((rast, rjs, rfh, rsh)), Some(flipped)) = (&reference, flip_literal_forms(e)) {
            let ftext = render(&flipped);
            if let Ok(Ok(fast)) = guarded(|| scheme.parse(&ftext).map_err(|e| e.to_string())) {
                run.eval(1);
                run.count("literal_form_variants", 1);
                if fast == *rast {
                    run.count("literal_form_variants_with_equal_ast", 1);
                    let fjs = serde_json::to_string(&fast).unwrap_or_default();
                    let (ffh, fsh) = (ffi_hash(&fast), std_hash(&fast));
                    if fjs != *rjs || ffh != *rfh || fsh != *rsh {
                        run.violation(
                            format!("{ID}:equal-asts-differ:{}", render(e)),
                            format!(
                                "{:?} and {ftext:?} parse to equal ASTs but differ in what is derived from them (json equal: {}, C hash equal: {}, Hash equal: {})",
                                texts[0],
                                fjs == *rjs,
                                ffh == *rfh,
                                fsh == *rsh
                            ),
                            case_json(&tag, "spelling-pair", &ftext, json!(e), None, json!({"other": texts[0]})),
                        );
                    }
                }
            }
        }
        // literal neighbours: one literal changed (the case of a letter, an integer by one) gives a
        // structurally different filter: a different AST and a different document
        if let Some((rast, rjs, _, _)) = &reference {
            for nb in literal_neighbours(e) {
                if normal_form(&nb) == normal_form(e) || filter_ok(&uni, &nb).is_err() {
                    continue;
                }
                let ntext = render(&nb);
                if let Ok(Ok(nast)) = guarded(|| scheme.parse(&ntext).map_err(|e| e.to_string())) {
                    run.eval(1);
                    run.count("literal_neighbours", 1);
                    let njs = serde_json::to_string(&nast).unwrap_or_default();
                    if nast == *rast || njs == *rjs {
                        run.violation(
                            format!("{ID}:different-literals-equal:{}", render(e)),
                            format!("{:?} and {ntext:?} differ in one literal but (ast equal: {}, json equal: {})", texts[0], nast == *rast, njs == *rjs),
                            case_json(&tag, "spelling-pair", &ntext, json!(e), None, json!({"other": texts[0]})),
                        );
                    }
                }
            }
        }
        // an index beyond u32 is not an index: the text with 2^32 added to an array index must not
        // parse to the same AST / document
        if let Some((rast, rjs, _, _)) = &reference {
            let base = render(e);
            if let Some(pos) = base.find('[') {
                let rest = &base[pos + 1..];
                let digits: String = rest.chars().take_while(|c| c.is_ascii_digit()).collect();
                if !digits.is_empty() && rest[digits.len()..].starts_with(']') {
                    if let Ok(n) = digits.parse::<u64>() {
                        for big in [n + (1u64 << 32), n + (1u64 << 33)] {
                            let text = format!("{}[{big}{}", &base[..pos], &rest[digits.len()..]);
                            run.eval(1);
                            run.count("oversized_index_texts", 1);
                            if let Ok(Ok(a)) = guarded(|| scheme.parse(&text).map_err(|e| e.to_string())) {
                                let js = serde_json::to_string(&a).unwrap_or_default();
                                if a == *rast || js == *rjs {
                                    run.violation(
                                        format!("{ID}:oversized-index-equal:{base}"),
                                        format!("{text:?} (index beyond 2^32) parses to the same AST / document as {base:?}"),
                                        case_json(&tag, "spelling-pair", &text, json!(e), None, json!({"other": base})),
                                    );
                                }
                            }
                        }
                    }
                }
            }
        }
        // structural neighbours: the next program of the (sorted) corpus differs in structure, so its
        // AST must not compare equal to this one
        if let (Some((rast, _, _, _)), Some(other)) = (&reference, programs.get(pi + 1)) {
            if normal_form(other) != normal_form(e) {
                if let Ok(Ok(oast)) = guarded(|| scheme.parse(&render(other)).map_err(|e| e.to_string())) {
                    run.count("neighbour_pairs", 1);
                    if oast == *rast {
                        run.violation(
                            format!("{ID}:different-structures-equal-ast:{}", render(e)),
                            format!("structurally different filters have equal ASTs: {:?} and {:?}", render(e), render(other)),
                            case_json(&tag, "spelling-pair", &render(e), json!(e), None, json!({"other": render(other)})),
                        );
                    }
                }
            }
        }
        if let Some((_, js, _, _)) = &reference {
            let nf = normal_form(e);
            let mut m = json_to_nf.lock().unwrap();
            if let Some(prev) = m.get(js) {
                if *prev != nf {
                    run.violation(
                        format!("{ID}:json-not-injective:{}", render(e)),
                        format!("two structurally different filters serialise identically: {js} for {prev} and {nf}"),
                        case_json(&tag, "injectivity", &render(e), json!(e), None, json!({"json": js})),
                    );
                }
            } else {
                m.insert(js.clone(), nf);
            }
        }
        if pi % 503 == 7 {
            run.sample(10, || json!({"structure": render(e), "spellings": texts.len(), "example_spellings": texts.iter().take(3).collect::<Vec<_>>(), "json": expected}));
        }
    });
    let distinct_json = json_to_nf.lock().unwrap().len() as u64;
    run.set("distinct_json_documents", json!(distinct_json));
    run.set("spellings", json!(spellings.load(Ordering::Relaxed)));
    run.count("spellings", spellings.load(Ordering::Relaxed));
    run.count("programs_with_several_spellings", multi.load(Ordering::Relaxed));
    run.finish(
        distinct_json,
        "every program of the corpus and of the boolean structure layer x every alias assignment (first 8 operator occurrences) x whitespace layouts (minimal, single, double, LF, CRLF-mix, each gap alone, Unicode whitespace around); per structure: equal AST, identical JSON = reference document, identical C hash and Hash; over the set: JSON -> structure is injective; distinct_nontrivial = distinct JSON documents",
        true,
        &[("spellings", 10000), ("programs_with_several_spellings", 500)],
    )
}
