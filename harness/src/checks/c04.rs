//! C04 — the parser accepts exactly the well-typed; accepted programs never fail later
//! (shape P, exhaustive matrices + bounded compositions).

use crate::ast::*;
use crate::ev::{Run, Tier, guarded, ncpu, par_for};
use crate::prog::{Bench, case_json, check_candidate, check_value};
use crate::sem::{expr_ty, value_ty};
use crate::uni::{MCtx, Uni};
use crate::unis;
use crate::val::{Ty, V};
use serde_json::json;
use std::collections::BTreeSet;
use std::sync::Mutex;
use std::sync::atomic::{AtomicU64, Ordering};

pub const ID: &str = "C04";

pub fn contexts(u: &Uni) -> Vec<MCtx> {
    let mut out = Vec::new();
    // (a) only the mandatory fields, minimal values
    let mut minimal = MCtx::new();
    minimal.insert("i".into(), V::Int(1));
    minimal.insert("s".into(), V::Bytes(b"a".to_vec()));
    minimal.insert("t".into(), V::Bool(true));
    minimal.insert("xi".into(), V::arr(Ty::Int, vec![]));
    minimal.insert("xb".into(), V::arr(Ty::Bool, vec![]));
    out.push(minimal.clone());
    // (b..d) every field set, from the three shape pools (empty / singleton / ragged)
    for k in 0..3 {
        let mut m = MCtx::new();
        for (n, t, _) in &u.fields {
            let p = super::c02::pool(t);
            m.insert(n.clone(), p[k.min(p.len() - 1)].clone());
        }
        out.push(m);
    }
    // (e) mandatory set to other values, optionals absent
    let mut other = minimal;
    other.insert("i".into(), V::Int(-7));
    other.insert("t".into(), V::Bool(false));
    other.insert("xi".into(), V::arr(Ty::Int, vec![V::Int(1), V::Int(2)]));
    other.insert("xb".into(), V::arr(Ty::Bool, vec![V::Bool(false), V::Bool(true)]));
    out.push(other);
    out
}

fn rhs_kinds() -> Vec<Rhs> {
    vec![
        Rhs::Lit(Lit::Int(1, IntForm::Dec)),
        Rhs::Lit(Lit::Int(16, IntForm::Hex)),
        Rhs::Lit(Lit::Int(8, IntForm::Oct)),
        Rhs::Lit(Lit::Bytes(b"ab".to_vec(), BytesForm::Quoted)),
        Rhs::Lit(Lit::Bytes(b"ab".to_vec(), BytesForm::Raw(1))),
        Rhs::Lit(Lit::Bytes(b"ab".to_vec(), BytesForm::Hex(':'))),
        Rhs::Lit(Lit::Ip("1.2.3.4".parse().unwrap())),
        Rhs::Lit(Lit::Ip("::1".parse().unwrap())),
        Rhs::IntSet(vec![IntItem { lo: 1, hi: Some(3) }, IntItem { lo: 7, hi: None }]),
        Rhs::IntSet(vec![]),
        Rhs::IpSet(vec![IpItem::Cidr("10.0.0.0".parse().unwrap(), 8), IpItem::Addr("::1".parse().unwrap())]),
        Rhs::BytesSet(vec![(b"a".to_vec(), BytesForm::Quoted), (b"ab".to_vec(), BytesForm::Hex('-'))]),
        Rhs::Regex("a.c".into(), BytesForm::Quoted),
        Rhs::Regex("a.c".into(), BytesForm::Raw(0)),
        Rhs::List("a.b_1".into()),
    ]
}

const ALL_OPS: [CmpOp; 13] = [
    CmpOp::Eq,
    CmpOp::Ne,
    CmpOp::Ge,
    CmpOp::Le,
    CmpOp::Gt,
    CmpOp::Lt,
    CmpOp::BitAnd,
    CmpOp::Contains,
    CmpOp::Matches,
    CmpOp::Wildcard,
    CmpOp::StrictWildcard,
    CmpOp::In,
    CmpOp::InList,
];

/// Syntactically well-formed (op, rhs) pairs: the operator's literal syntax fits the rhs kind.
/// (e.g. `in` is followed by `{..}` or `$name`; `matches` by a string). Pairs outside this set
/// are not sentences of the grammar for any left-hand type and are not generated.
fn op_rhs_syntax_ok(op: CmpOp, rhs: &Rhs) -> bool {
    match (op, rhs) {
        (CmpOp::In, Rhs::IntSet(_) | Rhs::IpSet(_) | Rhs::BytesSet(_)) => true,
        (CmpOp::InList, Rhs::List(_)) => true,
        (CmpOp::In | CmpOp::InList, _) => false,
        (CmpOp::Matches, Rhs::Regex(..)) => true,
        (CmpOp::Matches, _) => false,
        (_, Rhs::Lit(_)) => true,
        _ => false,
    }
}

/// Wrap a (possibly array- or map-typed) candidate so that it can stand as a whole filter:
/// the candidate itself plus quantified / negated / parenthesised variants.
fn as_roots(e: &Expr) -> Vec<Expr> {
    let arg = if arg_form_ok(e) { e.clone() } else { Expr::paren(e.clone()) };
    vec![
        e.clone(),
        Expr::any(QArg::Logical(arg.clone())),
        Expr::all(QArg::Logical(arg)),
        Expr::not(e.clone()),
    ]
}

fn leaves() -> Vec<Expr> {
    let f = Lhs::field;
    vec![
        Expr::IsTrue(f("t")),
        Expr::cmp(f("i"), CmpOp::Eq, Rhs::Lit(Lit::int(1))),
        Expr::cmp(f("s"), CmpOp::Contains, Rhs::Lit(Lit::str(b"a"))),
        Expr::IsTrue(f("xb")),
        Expr::cmp(Lhs::fieldp("xi", vec![Idx::Each]), CmpOp::Eq, Rhs::Lit(Lit::int(1))),
        Expr::IsTrue(f("mb")),
        Expr::IsTrue(Lhs::fieldp("xxb", vec![Idx::Each])),
        Expr::IsTrue(f("xi")),
        Expr::IsTrue(Lhs::fieldp("xxb", vec![Idx::N(0)])),
        Expr::IsTrue(Lhs::call("fb", vec![Arg::Lhs(f("t"))])),
        Expr::IsTrue(Lhs::fieldp("xb", vec![Idx::Each])),
    ]
}

/// The ways an expression can be passed as an argument (call or quantifier).
fn as_arg(e: &Expr) -> Vec<Arg> {
    let mut out = Vec::new();
    if let Expr::IsTrue(l) = e {
        out.push(Arg::Lhs(l.clone()));
    }
    if arg_form_ok(e) {
        out.push(Arg::Logical(e.clone()));
    } else {
        out.push(Arg::Logical(Expr::paren(e.clone())));
    }
    out
}

fn unary_compositions(e: &Expr) -> Vec<Expr> {
    let mut out = vec![Expr::not(e.clone()), Expr::paren(e.clone())];
    for a in as_arg(e) {
        let q = match &a {
            Arg::Lhs(l) => QArg::Lhs(l.clone()),
            Arg::Logical(e) => QArg::Logical(e.clone()),
            Arg::Lit(_) => unreachable!(),
        };
        out.push(Expr::any(q.clone()));
        out.push(Expr::all(q));
        out.push(Expr::IsTrue(Lhs::call("fb", vec![a.clone()])));
        out.push(Expr::IsTrue(Lhs::call("fa", vec![a.clone()])));
        out.push(Expr::cmp(Lhs::call("cnt", vec![a.clone()]), CmpOp::Ge, Rhs::Lit(Lit::int(1))));
        out.push(Expr::IsTrue(Lhs::callp("fa", vec![a], vec![Idx::Each])));
    }
    out
}

fn binary(op: LOp, a: &Expr, b: &Expr) -> Option<Expr> {
    // canonical chain: operands that are chains of lower-or-equal precedence get parentheses
    let wrap = |e: &Expr| match e {
        Expr::Chain(o, _) if *o <= op => Expr::paren(e.clone()),
        _ => e.clone(),
    };
    let (a, b) = (wrap(a), wrap(b));
    let mut items = Vec::new();
    items.push(a);
    items.push(b);
    Some(Expr::Chain(op, items))
}

pub fn run(tier: Tier, seed: u64) -> i32 {
    let run = Run::new(ID, "exploration", tier, seed);
    // C04 is about acceptance, panics and static types; what an accepted filter evaluates to is C01-C03's business
    run.types_only.store(true, std::sync::atomic::Ordering::Relaxed);
    run.assume("typing rules as listed in DESIGN.md §5 C04 (reference typer harness/src/sem.rs); bare boolean maps inside call arguments are not generated");
    let accepted = AtomicU64::new(0);
    let rejected = AtomicU64::new(0);
    let seen_programs: Mutex<BTreeSet<String>> = Mutex::new(BTreeSet::new());
    let (tag, uni) = unis::typing(true);
    let b = Bench::new(&tag, uni.clone(), contexts(&uni));
    let judge = |e: &Expr, layer: &'static str| {
        if !e.canonical() {
            return;
        }
        let (acc, _) = check_candidate(&run, ID, &b, e);
        if acc {
            accepted.fetch_add(1, Ordering::Relaxed);
        } else {
            rejected.fetch_add(1, Ordering::Relaxed);
        }
        run.count(layer, 1);
    };

    // ---- (1) lhs type x operator x literal kind ---------------------------------------
    let lhss: Vec<Lhs> = vec![
        Lhs::field("t"),
        Lhs::field("i"),
        Lhs::field("s"),
        Lhs::field("ip"),
        Lhs::field("xi"),
        Lhs::field("xb"),
        Lhs::field("ms"),
        Lhs::field("mb"),
        Lhs::field("xxb"),
        Lhs::fieldp("xi", vec![Idx::Each]),
        Lhs::fieldp("xs", vec![Idx::N(0)]),
        Lhs::fieldp("xip", vec![Idx::Each]),
        Lhs::fieldp("xxb", vec![Idx::Each]),
        Lhs::fieldp("mb", vec![Idx::Each]),
        Lhs::fieldp("ms", vec![Idx::K("a".into())]),
        Lhs::call("len", vec![Arg::Lhs(Lhs::field("s"))]),
        Lhs::call("idb", vec![Arg::Lhs(Lhs::fieldp("xs", vec![Idx::Each]))]),
        Lhs::callp("arr", vec![Arg::Lhs(Lhs::field("s"))], vec![Idx::Each]),
    ];
    let kinds = rhs_kinds();
    for l in &lhss {
        for e in as_roots(&Expr::IsTrue(l.clone())) {
            judge(&e, "matrix_op");
        }
        for op in ALL_OPS {
            for r in &kinds {
                if !op_rhs_syntax_ok(op, r) {
                    continue;
                }
                for e in as_roots(&Expr::cmp(l.clone(), op, r.clone())) {
                    judge(&e, "matrix_op");
                }
            }
        }
    }
    // the same matrix in a scheme without lists: `in $name` must be rejected everywhere
    {
        let (_, mut nolist) = unis::typing(true);
        nolist.lists.clear();
        let nb = Bench::new("typing-nolists:nilne=1", nolist, contexts(&uni));
        for l in &lhss {
            let e = Expr::cmp(l.clone(), CmpOp::InList, Rhs::List("a".into()));
            for e in as_roots(&e) {
                check_candidate(&run, ID, &nb, &e);
                run.count("matrix_nolist", 1);
            }
        }
    }

    // ---- (2) container type x index kind: every path up to length 3 over every field ---
    let idx_alphabet = [Idx::N(0), Idx::K("a".into()), Idx::Each];
    let mut paths: Vec<Vec<Idx>> = vec![vec![]];
    for len in 1..=3usize {
        for code in 0..3usize.pow(len as u32) {
            let mut x = code;
            let mut p = Vec::new();
            for _ in 0..len {
                p.push(idx_alphabet[x % 3].clone());
                x /= 3;
            }
            paths.push(p);
        }
    }
    let field_names: Vec<String> = uni.fields.iter().map(|f| f.0.clone()).collect();
    par_for(field_names.len(), ncpu(), |fi| {
        for p in &paths {
            let l = Lhs::fieldp(&field_names[fi], p.clone());
            let cands = vec![
                Expr::IsTrue(l.clone()),
                Expr::cmp(l.clone(), CmpOp::Eq, Rhs::Lit(Lit::int(1))),
                Expr::cmp(l.clone(), CmpOp::Eq, Rhs::Lit(Lit::str(b"a"))),
                Expr::cmp(l.clone(), CmpOp::Ne, Rhs::Lit(Lit::Ip("1.2.3.4".parse().unwrap()))),
            ];
            for c in cands {
                for e in as_roots(&c) {
                    judge(&e, "matrix_index");
                }
                if let Expr::IsTrue(l) = &c {
                    judge(&Expr::any(QArg::Lhs(l.clone())), "matrix_index");
                }
            }
            // value expressions: accepted iff well typed and free of [*]
            let text = render_value(&l);
            let want = value_ty(&b.uni, &l);
            let got = guarded(|| b.scheme.parse_value(&text).map(|_| ()).map_err(|e| e.to_string()));
            run.eval(1);
            run.count("value_candidates", 1);
            match (&got, &want) {
                (Ok(Ok(())), Ok(_)) => {
                    check_value(&run, ID, &b, &l);
                }
                (Ok(Err(_)), Err(_)) => {}
                _ => run.violation(
                    format!("{ID}:value-accept-mismatch:{}:{text}", b.tag),
                    format!("value expression {text:?}: engine {:?}, reference typer {:?}", got.as_ref().map(|r| r.is_ok()), want.as_ref().map(|t| t.short())),
                    case_json(&b.tag, "value-candidate", &text, json!(l), None, json!({})),
                ),
            }
        }
    });

    // ---- (2b) calls as value expressions: plain, mapped over [*], mapped twice ---------------
    // (a value expression yields a value of its static type or an absence tagged with it - also
    // when the static type of a mapped call differs from the type of what it maps over)
    {
        let mut cands: Vec<Lhs> = Vec::new();
        let unary: Vec<(String, Ty, Ty)> = uni
            .funcs
            .iter()
            .filter(|f| f.params.len() == 1 && f.opts.is_empty() && f.special.is_none())
            .map(|f| (f.name.to_string(), f.params[0].1.clone(), f.ret.clone()))
            .collect();
        for (fname, pty, rty) in &unary {
            for (field, fty, _) in &uni.fields {
                if fty == pty {
                    cands.push(Lhs::call(fname, vec![Arg::Lhs(Lhs::field(field))]));
                }
                if fty.elem() == Some(pty) {
                    let mapped = Lhs::call(fname, vec![Arg::Lhs(Lhs::fieldp(field, vec![Idx::Each]))]);
                    cands.push(mapped.clone());
                    // a second mapped call over the result of the first
                    for (gname, gpty, _) in &unary {
                        if gpty == rty {
                            let mut inner = mapped.clone();
                            inner.path.push(Idx::Each);
                            cands.push(Lhs::call(gname, vec![Arg::Lhs(inner)]));
                        }
                    }
                }
            }
        }
        cands.sort();
        cands.dedup();
        par_for(cands.len(), ncpu(), |k| {
            let l = &cands[k];
            let text = render_value(l);
            let want = value_ty(&b.uni, l);
            let got = guarded(|| b.scheme.parse_value(&text).map(|_| ()).map_err(|e| e.to_string()));
            run.eval(1);
            run.count("call_value_candidates", 1);
            match (&got, &want) {
                (Ok(Ok(())), Ok(_)) => {
                    check_value(&run, ID, &b, l);
                }
                (Ok(Err(_)), Err(_)) => {}
                _ => run.violation(
                    format!("{ID}:value-accept-mismatch:{}:{text}", b.tag),
                    format!("value expression {text:?}: engine {:?}, reference typer {:?}", got.as_ref().map(|r| r.is_ok()), want.as_ref().map(|t| t.short())),
                    case_json(&b.tag, "value-candidate", &text, json!(l), None, json!({})),
                ),
            }
        });
    }

    // ---- (3) operand type pairs x logical operator, chains of 2 and 3 -------------------
    let ls = leaves();
    let pool: Vec<Expr> = {
        let mut p = Vec::new();
        for l in &ls {
            p.push(l.clone());
            p.push(Expr::not(l.clone()));
            p.push(Expr::paren(l.clone()));
        }
        p
    };
    let np = pool.len();
    let ops3 = [LOp::And, LOp::Xor, LOp::Or];
    par_for(np * np, ncpu(), |j| {
        let (a, c) = (&pool[j % np], &pool[j / np]);
        for op in ops3 {
            let e = Expr::Chain(op, vec![a.clone(), c.clone()]);
            for r in as_roots(&e) {
                judge(&r, "matrix_logical2");
            }
        }
    });
    // three operands, all operator pairs (the third operand may break a chain the first two allow)
    let small: Vec<Expr> = ls.iter().take(9).cloned().collect();
    let ns = small.len();
    par_for(ns * ns * ns, ncpu(), |j| {
        let items = [&small[j % ns], &small[(j / ns) % ns], &small[j / (ns * ns)]];
        for o1 in ops3 {
            for o2 in ops3 {
                let operands: Vec<Expr> = items.iter().map(|e| (*e).clone()).collect();
                let e = super::c01::build_flat(&operands, &[o1, o2]);
                for r in as_roots(&e) {
                    judge(&r, "matrix_logical3");
                }
            }
        }
    });

    // ---- (4) function signature x argument shape --------------------------------------------
    let arg_pool: Vec<Arg> = {
        let f = |n: &str| Arg::Lhs(Lhs::field(n));
        vec![
            f("s"),
            f("i"),
            f("t"),
            f("ip"),
            f("xs"),
            f("xi"),
            f("xb"),
            Arg::Lhs(Lhs::fieldp("xs", vec![Idx::Each])),
            Arg::Lhs(Lhs::fieldp("xi", vec![Idx::Each])),
            Arg::Lhs(Lhs::fieldp("xxi", vec![Idx::Each])),
            Arg::Lhs(Lhs::fieldp("ms", vec![Idx::K("a".into())])),
            Arg::Lit(Lit::str(b"lit")),
            Arg::Lit(Lit::int(5)),
            Arg::Lit(Lit::Ip("1.2.3.4".parse().unwrap())),
            Arg::Logical(Expr::paren(Expr::IsTrue(Lhs::field("t")))),
            Arg::Logical(Expr::cmp(Lhs::field("i"), CmpOp::Eq, Rhs::Lit(Lit::int(1)))),
            Arg::Logical(Expr::cmp(Lhs::fieldp("xi", vec![Idx::Each]), CmpOp::Eq, Rhs::Lit(Lit::int(1)))),
            Arg::Lhs(Lhs::call("len", vec![f("s")])),
            Arg::Lhs(Lhs::call("idb", vec![f("s")])),
        ]
    };
    let fnames: Vec<&'static str> = uni.funcs.iter().map(|f| f.name).collect();
    let na = arg_pool.len();
    let max_arity = tier.pick(2usize, 3usize);
    for fname in &fnames {
        let spec = uni.func(fname).unwrap();
        let declared_max = match spec.special {
            Some(_) => 3,
            None => spec.params.len() + spec.opts.len(),
        };
        let top = (declared_max + 1).min(max_arity.max(if *fname == "opt" || *fname == "concat" || *fname == "ctxfn" { 3 } else { 0 }));
        for arity in 0..=top {
            let jobs = na.pow(arity as u32);
            par_for(jobs, ncpu(), |j| {
                let mut x = j;
                let mut args = Vec::new();
                for _ in 0..arity {
                    args.push(arg_pool[x % na].clone());
                    x /= na;
                }
                let call = Lhs::call(fname, args.clone());
                let mut cands = vec![
                    Expr::IsTrue(call.clone()),
                    Expr::cmp(call.clone(), CmpOp::Eq, Rhs::Lit(Lit::str(b"a"))),
                    Expr::cmp(call.clone(), CmpOp::Eq, Rhs::Lit(Lit::int(1))),
                ];
                let mut each = call.clone();
                each.path.push(Idx::Each);
                cands.push(Expr::any(QArg::Logical(Expr::cmp(each.clone(), CmpOp::Eq, Rhs::Lit(Lit::str(b"a"))))));
                cands.push(Expr::any(QArg::Logical(Expr::cmp(each, CmpOp::Eq, Rhs::Lit(Lit::int(1))))));
                for c in cands {
                    judge(&c, "matrix_call");
                }
                if j % 41 == 3 {
                    run.sample(8, || json!({"layer": "call", "candidate": render(&Expr::IsTrue(call.clone())), "reference_type": expr_ty(&b.uni, &Expr::IsTrue(call.clone())).map(|t| t.short()).map_err(|e| e.0)}));
                }
            });
        }
    }

    // ---- (5) compositions of typed and ill-typed leaves --------------------------------------
    let mut level: Vec<Expr> = ls.clone();
    let depth = tier.pick(2usize, 2usize);
    let mut all_levels: Vec<Vec<Expr>> = vec![level.clone()];
    for d in 1..=depth {
        let prev_all: Vec<Expr> = all_levels.iter().flatten().cloned().collect();
        let mut next: Vec<Expr> = Vec::new();
        for e in &level {
            next.extend(unary_compositions(e));
        }
        // binary: at depth 1 all pairs; deeper: new x (leaves + depth-1) to stay bounded
        let partners: Vec<Expr> = if d == 1 { prev_all.clone() } else { all_levels[..tier.pick(1, 2).min(all_levels.len())].iter().flatten().cloned().collect() };
        for a in &level {
            for c in &partners {
                for op in ops3 {
                    if let Some(e) = binary(op, a, c) {
                        next.push(e);
                    }
                    if let Some(e) = binary(op, c, a) {
                        next.push(e);
                    }
                }
            }
        }
        next.retain(|e| e.canonical());
        next.sort();
        next.dedup();
        all_levels.push(next.clone());
        level = next;
    }
    let comps: Vec<Expr> = all_levels.into_iter().flatten().collect();
    run.set("composition_candidates", json!(comps.len()));
    par_for(comps.len(), ncpu(), |k| {
        let e = &comps[k];
        judge(e, "compositions");
        if k % 5003 == 11 {
            let mut s = seen_programs.lock().unwrap();
            s.insert(render(e));
        }
    });
    for (i, s) in seen_programs.lock().unwrap().iter().enumerate() {
        if i < 10 {
            run.sample(20, || json!({"layer": "composition", "candidate": s}));
        }
    }

    let acc = accepted.load(Ordering::Relaxed);
    let rej = rejected.load(Ordering::Relaxed);
    run.set("accepted", json!(acc));
    run.set("rejected", json!(rej));
    run.set("contexts_per_accepted_program", json!(b.ctxs.len()));
    run.finish(
        acc.min(rej),
        "complete matrices (lhs type x operator x literal kind; field x index path; operand shapes x logical operators for 2- and 3-chains; function x argument tuples) and all compositions of 11 leaves up to depth 2, each judged accept/reject against the reference typer; accepted ones executed on every context; distinct_nontrivial = min(#accepted, #rejected) candidates",
        true,
        &[("matrix_op", 500), ("matrix_index", 500), ("matrix_logical3", 500), ("matrix_call", 1000), ("compositions", 1000)],
    )
}
