//! C10 — `contains` on every code path (shape P x configurations, exhaustive; hook: anchor override).
//!
//! Two worker processes (SIMD enabled / `WIREFILTER_USE_AVX2=0`) enumerate the same space; the
//! parent compares each with the naive oracle and the two answer digests with each other.

use crate::ev::{Run, Tier, guarded, ncpu, par_for};
use crate::sem::naive_contains;
use serde_json::{Value, json};
use std::hash::Hasher;
use std::sync::Mutex;
use std::sync::atomic::{AtomicU64, Ordering};
use wirefilter::{ExecutionContext, Filter, Scheme, SchemeBuilder, Type};

pub const ID: &str = "C10";

fn needles(max_len: usize) -> Vec<Vec<u8>> {
    let mut out: Vec<Vec<u8>> = vec![vec![]];
    for n in 1..=max_len {
        out.push(vec![b'a'; n]); // all-a: maximal false candidates
        out.push((0..n).map(|i| if i % 2 == 0 { b'a' } else { b'b' }).collect()); // alternating
        let mut u = vec![b'a'; n];
        u[n - 1] = b'b'; // unique last byte
        out.push(u);
        if n >= 3 {
            let mut m = vec![b'b'; n];
            m[n / 2] = b'a'; // unique middle byte
            out.push(m);
        }
    }
    // every byte value as a single-byte needle (the one-byte shortcut), and the values at the edges
    // of the byte range in short and long needles
    for x in 0..=255u8 {
        out.push(vec![x]);
    }
    for x in [0x00u8, 0x01, 0x7f, 0x80, 0xfe, 0xff] {
        out.push(vec![x, x]);
        out.push(vec![x, b'a']);
        out.push(vec![b'a', x]);
        out.push(vec![x, b'a', x]);
        if max_len >= 17 {
            out.push(vec![x; 17]);
            let mut v = vec![b'a'; 17];
            v[16] = x;
            out.push(v);
        }
    }
    out.sort();
    out.dedup();
    out
}

fn quote(n: &[u8]) -> String {
    crate::ast::render_quoted(n)
}

fn compile(scheme: &Scheme, needle: &[u8]) -> Filter {
    scheme.parse(&format!("s contains {}", quote(needle))).expect("parse contains").compile()
}

fn exec(scheme: &Scheme, f: &Filter, h: &[u8]) -> Result<bool, String> {
    let mut ctx = ExecutionContext::<()>::new(scheme);
    ctx.set_field_value(scheme.get_field("s").unwrap(), h).unwrap();
    guarded(|| f.execute(&ctx).expect("same scheme"))
}

fn haystacks_for(needle: &[u8], ab_len: usize, embed_len: usize, thorough: bool) -> Vec<Vec<u8>> {
    let n = needle.len();
    let mut out: Vec<Vec<u8>> = Vec::new();
    // (iii) degenerate
    out.push(vec![]);
    if n > 0 {
        out.push(needle[..n - 1].to_vec());
        out.push(needle.to_vec());
        let mut near = needle.to_vec();
        near[n - 1] ^= 3;
        out.push(near);
        out.push(needle[1..].to_vec());
    }
    // (ii) needle embedded at every offset of every total length, filler = first / last / middle byte,
    //      plus the three near misses (first / last / middle byte flipped)
    if n > 0 {
        let fillers = [needle[0], needle[n - 1], needle[n / 2], b'c'];
        for total in n..=embed_len {
            let offsets: Vec<usize> = if total <= 96 || !thorough {
                (0..=total - n).collect()
            } else {
                // long haystacks: near both ends and around every 16-byte boundary
                (0..=total - n)
                    .filter(|o| *o < 20 || *o + n + 20 > total || (*o % 16) <= 1 || (*o % 16) >= 15 || ((*o + n) % 32) <= 1)
                    .collect()
            };
            for off in offsets {
                for (fi, fill) in fillers.iter().enumerate() {
                    // the all-filler haystacks quickly become redundant for long totals: keep two fillers there
                    if total > 96 && fi >= 2 {
                        continue;
                    }
                    let mut h = vec![*fill; total];
                    h[off..off + n].copy_from_slice(needle);
                    out.push(h.clone());
                    for pos in [0, n - 1, n / 2] {
                        let mut m = h.clone();
                        m[off + pos] = if m[off + pos] == b'z' { b'y' } else { b'z' };
                        out.push(m);
                    }
                }
            }
        }
    }
    // (i) every string over {a,b} up to ab_len behind paddings that straddle 16/32-byte blocks
    for len in 0..=ab_len {
        for code in 0..(1usize << len) {
            let body: Vec<u8> = (0..len).map(|i| if (code >> i) & 1 == 0 { b'a' } else { b'b' }).collect();
            for pad in [0usize, 15, 16, 17, 31, 32, 33] {
                let mut h = vec![b'c'; pad];
                h.extend_from_slice(&body);
                out.push(h);
            }
        }
    }
    out
}

pub fn worker(args: &[String]) -> i32 {
    let expect_simd = args.first().map(|s| s == "simd").unwrap_or(false);
    let thorough = args.get(1).map(|s| s == "thorough").unwrap_or(false);
    crate::ev::quiet_panics();
    let simd = wirefilter::verif::simd_active();
    if simd != expect_simd {
        // not a failure of the property: the SIMD half cannot be covered on this machine/config
        println!("{}", json!({"covered": false, "simd_active": simd, "expected_simd": expect_simd}));
        return 0;
    }
    let mut b = SchemeBuilder::new();
    b.add_field("s", Type::Bytes).unwrap();
    let scheme = b.build();
    let (max_needle, ab_len, embed_len) = if thorough { (40usize, 12usize, 300usize) } else { (24, 9, 72) };
    let ns = needles(max_needle);
    let evals = AtomicU64::new(0);
    let trues = AtomicU64::new(0);
    let compiled = AtomicU64::new(0);
    let digests: Mutex<Vec<(usize, u64)>> = Mutex::new(Vec::new());
    let violations: Mutex<Vec<Value>> = Mutex::new(Vec::new());
    par_for(ns.len(), ncpu(), |ni| {
        let needle = &ns[ni];
        let n = needle.len();
        // filters: every anchor (when it matters), plus compilations with the engine's own random anchor
        let mut filters: Vec<(String, Filter)> = Vec::new();
        if simd && n >= 2 {
            for pos in 1..n {
                wirefilter::verif::set_anchor_override(Some(pos));
                filters.push((format!("anchor={pos}"), compile(&scheme, needle)));
            }
            wirefilter::verif::set_anchor_override(None);
        }
        for k in 0..(if simd && n >= 2 { 8 } else { 2 }) {
            filters.push((format!("recompile#{k}"), compile(&scheme, needle)));
        }
        compiled.fetch_add(filters.len() as u64, Ordering::Relaxed);
        let hs = haystacks_for(needle, ab_len.min(if n > 16 { 6 } else { ab_len }), embed_len, thorough);
        let mut digest = fnv::FnvHasher::default();
        for h in &hs {
            let want = naive_contains(h, needle);
            digest.write_u8(want as u8);
            if want {
                trues.fetch_add(1, Ordering::Relaxed);
            }
            for (label, f) in &filters {
                let got = exec(&scheme, f, h);
                if got != Ok(want) {
                    let mut v = violations.lock().unwrap();
                    if v.len() < 40 {
                        v.push(json!({
                            "needle": String::from_utf8_lossy(needle), "needle_len": n, "haystack": String::from_utf8_lossy(h),
                            "haystack_len": h.len(), "filter": label, "simd": simd,
                            "engine": format!("{got:?}"), "reference": want,
                        }));
                    }
                }
            }
            evals.fetch_add(filters.len() as u64, Ordering::Relaxed);
        }
        digests.lock().unwrap().push((ni, digest.finish()));
    });
    let mut d = digests.into_inner().unwrap();
    d.sort();
    let mut all = fnv::FnvHasher::default();
    for (_, x) in &d {
        all.write_u64(*x);
    }
    println!(
        "{}",
        json!({
            "covered": true, "simd_active": simd, "needles": ns.len(), "max_needle_len": max_needle,
            "filters_compiled": compiled.load(Ordering::Relaxed), "evaluations": evals.load(Ordering::Relaxed),
            "haystacks_containing_needle": trues.load(Ordering::Relaxed),
            "answers_digest": format!("{:016x}", all.finish()),
            "violations": violations.into_inner().unwrap(),
            "bounds": {"ab_strings_up_to": ab_len, "embedded_total_length_up_to": embed_len},
        })
    );
    0
}

fn spawn(mode: &str, tier: Tier) -> Result<Value, String> {
    let exe = std::env::current_exe().map_err(|e| e.to_string())?;
    let mut cmd = std::process::Command::new(exe);
    cmd.args(["worker", "c10", mode, tier.name()]);
    if mode == "simd" {
        cmd.env_remove("WIREFILTER_USE_AVX2");
    } else {
        cmd.env("WIREFILTER_USE_AVX2", "0");
    }
    let out = cmd.output().map_err(|e| e.to_string())?;
    if !out.status.success() {
        return Err(format!("worker {mode} died: {:?}: {}", out.status, String::from_utf8_lossy(&out.stderr).lines().last().unwrap_or("")));
    }
    let stdout = String::from_utf8_lossy(&out.stdout);
    let line = stdout.lines().last().ok_or("no worker output")?;
    serde_json::from_str(line).map_err(|e| format!("bad worker output: {e}"))
}

pub fn run(tier: Tier, seed: u64) -> i32 {
    let run = Run::new(ID, "exploration", tier, seed);
    run.assume("needles over {a,b} in four families per length; haystacks as enumerated; SIMD path requires AVX2 hardware (reported if absent)");
    let mut digests = Vec::new();
    for mode in ["simd", "scalar"] {
        match spawn(mode, tier) {
            Err(e) => {
                // a worker that dies while searching is a violation of the property (crash on some input)
                run.violation(
                    format!("{ID}:worker-died:{mode}"),
                    format!("the {mode} worker died while executing `contains` filters: {e}"),
                    json!({"kind": "c10-worker", "mode": mode, "detail": e}),
                );
            }
            Ok(v) => {
                if v["covered"] == json!(false) {
                    run.note(format!("{mode} path not covered on this machine: {v}"));
                    run.set(&format!("{mode}_covered"), json!(false));
                    continue;
                }
                run.eval(v["evaluations"].as_u64().unwrap_or(0));
                run.count(&format!("{mode}_evaluations"), v["evaluations"].as_u64().unwrap_or(0));
                run.count("haystacks_containing_needle", v["haystacks_containing_needle"].as_u64().unwrap_or(0));
                for viol in v["violations"].as_array().cloned().unwrap_or_default() {
                    run.violation(
                        format!("{ID}:wrong-answer:{mode}:len{}:{}", viol["needle_len"], viol["filter"].as_str().unwrap_or("")),
                        format!("[{mode}] `s contains {:?}` on a {}-byte value: engine {}, reference {} ({})", viol["needle"].as_str().unwrap_or(""), viol["haystack_len"], viol["engine"], viol["reference"], viol["filter"].as_str().unwrap_or("")),
                        json!({"kind": "contains", "mode": mode, "case": viol}),
                    );
                }
                digests.push((mode, v["answers_digest"].clone()));
                let mut summary = v.clone();
                summary.as_object_mut().unwrap().remove("violations");
                run.set(&format!("{mode}_worker"), summary);
            }
        }
    }
    if digests.len() == 2 && digests[0].1 != digests[1].1 {
        run.violation(
            format!("{ID}:paths-enumerated-different-spaces"),
            "the two workers did not enumerate the same reference answers (machinery)".to_string(),
            json!({"kind": "c10-digest"}),
        );
    }
    run.sample(4, || json!({"filter": "s contains \"abababab\"", "configurations": "every anchor 1..len-1 via the override hook + 8 compilations with the engine's random anchor, SIMD and scalar processes", "haystack_example": "cccccccccccccccabababab (15 bytes of padding)"}));
    run.sample(4, || json!({"filter": "s contains \"aaaaaaaaaaaaaaaaab\" (18 bytes)", "haystack_example": "needle embedded at every offset of every total length in filler 'a' / 'b' / 'c' + near misses"}));
    let nt = run.counter("haystacks_containing_needle");
    run.finish(
        nt,
        "needle lengths 0..=24 (quick) / 0..=40 (thorough) x 3-4 families x every anchor position x {all {a,b}-strings behind 7 paddings; needle embedded at every offset of every total length in 4 fillers with 3 near-misses; degenerate haystacks} x {SIMD, scalar} processes; oracle: naive window comparison; distinct_nontrivial = haystacks that contain their needle",
        true,
        &[("scalar_evaluations", 100000), ("haystacks_containing_needle", 1000)],
    )
}

pub fn replay(case: &Value) -> Result<u64, String> {
    // re-run one (needle, haystack) pair on both paths in-process where possible
    let c = &case["case"];
    let needle = c["needle"].as_str().ok_or("needle")?.as_bytes().to_vec();
    let hay = c["haystack"].as_str().ok_or("haystack")?.as_bytes().to_vec();
    let mut b = SchemeBuilder::new();
    b.add_field("s", Type::Bytes).unwrap();
    let scheme = b.build();
    let want = naive_contains(&hay, &needle);
    let mut bad = 0;
    let n = needle.len();
    for pos in 1..n.max(1) {
        wirefilter::verif::set_anchor_override(Some(pos));
        let f = compile(&scheme, &needle);
        if exec(&scheme, &f, &hay) != Ok(want) {
            bad += 1;
        }
    }
    wirefilter::verif::set_anchor_override(None);
    let f = compile(&scheme, &needle);
    if exec(&scheme, &f, &hay) != Ok(want) {
        bad += 1;
    }
    Ok(bad)
}
