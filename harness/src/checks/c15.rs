//! C15 — type and scheme encodings (shape P, exhaustive).

use crate::ev::{Run, Tier, guarded, ncpu, par_for};
use serde_json::{Value, json};
use wirefilter::{CompoundType, GetType, Scheme, SchemeBuilder, Type};
use wirefilter_ffi::{CPrimitiveType, CType};

pub const ID: &str = "C15";

#[derive(Clone, Copy, Debug, PartialEq, Eq)]
enum Prim {
    Ip,
    Bytes,
    Int,
    Bool,
}

const PRIMS: [Prim; 4] = [Prim::Ip, Prim::Bytes, Prim::Int, Prim::Bool];

impl Prim {
    fn name(self) -> &'static str {
        match self {
            Prim::Ip => "Ip",
            Prim::Bytes => "Bytes",
            Prim::Int => "Int",
            Prim::Bool => "Bool",
        }
    }
    fn ty(self) -> Type {
        match self {
            Prim::Ip => Type::Ip,
            Prim::Bytes => Type::Bytes,
            Prim::Int => Type::Int,
            Prim::Bool => Type::Bool,
        }
    }
    fn code(self) -> u8 {
        match self {
            Prim::Ip => 1,
            Prim::Bytes => 2,
            Prim::Int => 3,
            Prim::Bool => 4,
        }
    }
    fn c(self) -> CPrimitiveType {
        match self {
            Prim::Ip => CPrimitiveType::Ip,
            Prim::Bytes => CPrimitiveType::Bytes,
            Prim::Int => CPrimitiveType::Int,
            Prim::Bool => CPrimitiveType::Bool,
        }
    }
}

/// `layers[0]` is the outermost layer; `true` = Map, `false` = Array.
fn build_type(layers: &[bool], p: Prim) -> Type {
    let mut t = p.ty();
    for l in layers.iter().rev() {
        t = if *l { Type::Map(t.into()) } else { Type::Array(t.into()) };
    }
    t
}

fn expected_json(layers: &[bool], p: Prim) -> String {
    let mut s = String::new();
    for l in layers {
        s.push_str(if *l { "{\"Map\":" } else { "{\"Array\":" });
    }
    s.push('"');
    s.push_str(p.name());
    s.push('"');
    for _ in layers {
        s.push('}');
    }
    s
}

/// Independent bit packing: outermost layer = least significant bit, Array = 0, Map = 1.
fn expected_bits(layers: &[bool]) -> u32 {
    let mut bits = 0u32;
    for (i, l) in layers.iter().enumerate() {
        if *l {
            bits |= 1 << i;
        }
    }
    bits
}

fn c_constructed(layers: &[bool], p: Prim) -> CType {
    let mut c = wirefilter_ffi::wirefilter_create_primitive_type(p.c());
    for l in layers.iter().rev() {
        c = if *l { wirefilter_ffi::wirefilter_create_map_type(c) } else { wirefilter_ffi::wirefilter_create_array_type(c) };
    }
    c
}

fn rust_string(r: wirefilter_ffi::SerializingResult) -> Option<String> {
    if r.status != wirefilter_ffi::Status::Success || r.json.ptr.is_null() {
        return None;
    }
    let bytes = unsafe { std::slice::from_raw_parts(r.json.ptr.cast::<u8>(), r.json.len) };
    Some(String::from_utf8_lossy(bytes).to_string())
}

fn check_type(run: &Run, layers: &[bool], p: Prim) {
    let label = format!("{}{}", layers.iter().map(|l| if *l { 'M' } else { 'A' }).collect::<String>(), p.name());
    let r = guarded(|| {
        let mut problems: Vec<String> = Vec::new();
        let t = build_type(layers, p);
        // recursive <-> flattened
        if !layers.is_empty() {
            let ct = CompoundType::from(t);
            if Type::from(ct) != t {
                problems.push("Type -> CompoundType -> Type is not the identity".into());
            }
            if ct.get_type() != t {
                problems.push("CompoundType::get_type differs".into());
            }
            // peel layer by layer through `next()`
            let mut cur = t;
            for (i, l) in layers.iter().enumerate() {
                match cur {
                    Type::Map(_) if *l => {}
                    Type::Array(_) if !*l => {}
                    _ => problems.push(format!("layer {i} reads back as the other container kind")),
                }
                cur = match cur.next() {
                    Some(n) => n,
                    None => {
                        problems.push("ran out of layers".into());
                        break;
                    }
                };
            }
            if cur != p.ty() {
                problems.push("primitive reads back differently".into());
            }
        }
        // recursive <-> C
        let c = CType::from(t);
        let want_c = (expected_bits(layers), layers.len() as u8, p.code());
        if (c.layers, c.len, c.primitive) != want_c {
            problems.push(format!("CType::from(Type) = ({:#x},{},{}), expected ({:#x},{},{})", c.layers, c.len, c.primitive, want_c.0, want_c.1, want_c.2));
        }
        if Type::from(c) != t {
            problems.push("Type -> CType -> Type is not the identity".into());
        }
        let cc = c_constructed(layers, p);
        if cc != c {
            problems.push(format!("C constructors give ({:#x},{},{}), CType::from(Type) gives ({:#x},{},{})", cc.layers, cc.len, cc.primitive, c.layers, c.len, c.primitive));
        }
        if CType::from(Type::from(cc)) != cc {
            problems.push("CType -> Type -> CType is not the identity".into());
        }
        // JSON
        let want_js = expected_json(layers, p);
        let js = serde_json::to_string(&t).unwrap_or_default();
        if js != want_js {
            problems.push(format!("JSON is {js}, expected {want_js}"));
        }
        if rust_string(wirefilter_ffi::wirefilter_serialize_type_to_json(c)).as_deref() != Some(want_js.as_str()) {
            problems.push("wirefilter_serialize_type_to_json differs from the reference JSON".into());
        }
        let feeds: Vec<(&str, Result<Type, String>)> = vec![
            ("from_str", serde_json::from_str::<Type>(&want_js).map_err(|e| e.to_string())),
            ("from_slice", serde_json::from_slice::<Type>(want_js.as_bytes()).map_err(|e| e.to_string())),
            ("from_reader", serde_json::from_reader::<_, Type>(want_js.as_bytes()).map_err(|e| e.to_string())),
            ("from_value", serde_json::from_str::<Value>(&want_js).map_err(|e| e.to_string()).and_then(|v| serde_json::from_value::<Type>(v).map_err(|e| e.to_string()))),
            ("from_&value", serde_json::from_str::<Value>(&want_js).map_err(|e| e.to_string()).and_then(|v| <Type as serde::Deserialize>::deserialize(&v).map_err(|e| e.to_string()))),
        ];
        for (name, got) in feeds {
            if got != Ok(t) {
                problems.push(format!("{name}({want_js}) = {got:?}"));
            }
        }
        problems
    });
    run.eval(1);
    match r {
        Err(pn) => run.violation(
            format!("{ID}:type-panic:{label}"),
            format!("type {label}: conversions panicked: {pn}"),
            json!({"kind": "c15-type", "layers": layers, "primitive": p.name()}),
        ),
        Ok(problems) => {
            for pr in problems {
                run.violation(
                    format!("{ID}:type:{label}:{pr}"),
                    format!("type {label}: {pr}"),
                    json!({"kind": "c15-type", "layers": layers, "primitive": p.name()}),
                );
            }
        }
    }
}

fn check_deep_json(run: &Run, layers: &[bool], p: Prim) {
    let js = expected_json(layers, p);
    let n = layers.len();
    let feeds: Vec<(&str, Result<Result<Type, String>, String>)> = vec![
        ("from_str", guarded(|| serde_json::from_str::<Type>(&js).map_err(|e| e.to_string()))),
        ("from_slice", guarded(|| serde_json::from_slice::<Type>(js.as_bytes()).map_err(|e| e.to_string()))),
        ("from_reader", guarded(|| serde_json::from_reader::<_, Type>(js.as_bytes()).map_err(|e| e.to_string()))),
        (
            "from_value",
            guarded(|| {
                // build the value tree directly (the text parser has its own recursion limit)
                let mut v = Value::String(p.name().to_string());
                for l in layers.iter().rev() {
                    let mut m = serde_json::Map::new();
                    m.insert(if *l { "Map" } else { "Array" }.to_string(), v);
                    v = Value::Object(m);
                }
                serde_json::from_value::<Type>(v).map_err(|e| e.to_string())
            }),
        ),
    ];
    for (name, got) in feeds {
        run.eval(1);
        run.count("deep_descriptors", 1);
        match got {
            Err(pn) => run.violation(
                format!("{ID}:deep-panic:{name}:{n}"),
                format!("{name} of a {n}-layer type descriptor panicked: {pn}"),
                json!({"kind": "c15-deep", "layers": layers, "primitive": p.name()}),
            ),
            Ok(Err(_)) => {
                run.count("deep_rejected", 1);
            }
            Ok(Ok(t)) => {
                // only acceptable if the type is represented faithfully
                let back = guarded(|| serde_json::to_string(&t).unwrap_or_default());
                if back.as_deref() != Ok(js.as_str()) {
                    run.violation(
                        format!("{ID}:deep-different-type:{name}:{n}"),
                        format!("{name} of a {n}-layer type descriptor yields a different type (re-serialises to {} layers)", back.as_deref().map(|s| s.matches('{').count()).unwrap_or(0)),
                        json!({"kind": "c15-deep", "layers": layers, "primitive": p.name()}),
                    );
                } else {
                    run.count("deep_accepted_faithfully", 1);
                }
            }
        }
    }
}

const NAMES: [&str; 8] = ["a", "a.b", "A", "a_very_long_field_name.with.many.segments_0123456789", "é", "a\"b", "a\\b", "$lists"];

fn field_variants() -> Vec<(Type, bool)> {
    vec![
        (Type::Int, false),
        (Type::Bytes, true),
        (Type::Array(Type::Map(Type::Ip.into()).into()), false),
        (Type::Bool, true),
        (Type::Map(Type::Array(Type::Bytes.into()).into()), true),
        (Type::Ip, false),
    ]
}

fn check_scheme(run: &Run, fields: &[(String, Type, bool)]) {
    let label = fields.iter().map(|(n, t, o)| format!("{n}:{t:?}:{o}")).collect::<Vec<_>>().join(",");
    let r = guarded(|| {
        let mut problems: Vec<String> = Vec::new();
        let mut b = SchemeBuilder::new();
        for (n, t, o) in fields {
            if *o {
                b.add_optional_field(n, *t).unwrap();
            } else {
                b.add_field(n, *t).unwrap();
            }
        }
        let scheme = b.build();
        let want_js = format!(
            "{{{}}}",
            fields
                .iter()
                .map(|(n, t, o)| format!("{}:{{\"type\":{},\"optional\":{}}}", serde_json::to_string(n).unwrap(), serde_json::to_string(t).unwrap(), o))
                .collect::<Vec<_>>()
                .join(",")
        );
        let js = serde_json::to_string(&scheme).unwrap_or_default();
        if js != want_js {
            problems.push(format!("scheme JSON is {js}, expected {want_js}"));
        }
        let c_scheme = wirefilter_ffi::Scheme::from(scheme.clone());
        if rust_string(wirefilter_ffi::wirefilter_serialize_scheme_to_json(&c_scheme)).as_deref() != Some(want_js.as_str()) {
            problems.push("wirefilter_serialize_scheme_to_json differs".into());
        }
        let feeds: Vec<(&str, Result<Scheme, String>)> = vec![
            ("from_str", serde_json::from_str::<Scheme>(&want_js).map_err(|e| e.to_string())),
            ("from_slice", serde_json::from_slice::<Scheme>(want_js.as_bytes()).map_err(|e| e.to_string())),
            ("from_reader", serde_json::from_reader::<_, Scheme>(want_js.as_bytes()).map_err(|e| e.to_string())),
            ("from_value", serde_json::from_str::<Value>(&want_js).map_err(|e| e.to_string()).and_then(|v| serde_json::from_value::<Scheme>(v).map_err(|e| e.to_string()))),
            ("from_&value", serde_json::from_str::<Value>(&want_js).map_err(|e| e.to_string()).and_then(|v| <Scheme as serde::Deserialize>::deserialize(&v).map_err(|e| e.to_string()))),
        ];
        for (name, got) in feeds {
            match got {
                Err(e) => problems.push(format!("{name}: rejected the scheme's own JSON: {e}")),
                Ok(s2) => {
                    // serde_json's Value keeps keys sorted (no preserve_order): order is only promised for the text feeds
                    let through_value = name.contains("value");
                    let mut got_fields: Vec<(String, Type, bool)> = s2.fields().map(|f| (f.name().to_string(), f.get_type(), f.optional())).collect();
                    let mut want_fields: Vec<(String, Type, bool)> = fields.to_vec();
                    if through_value {
                        got_fields.sort();
                        want_fields.sort();
                    }
                    if got_fields != want_fields {
                        problems.push(format!("{name}: fields {got_fields:?}, expected {want_fields:?}"));
                    }
                    if !through_value && serde_json::to_string(&s2).unwrap_or_default() != want_js {
                        problems.push(format!("{name}: re-serialisation differs"));
                    }
                    for (i, f) in s2.fields().enumerate() {
                        if f.index() != i || s2.get_field(f.name()).map(|g| g.index()) != Ok(i) {
                            problems.push(format!("{name}: field index inconsistency at {i}"));
                        }
                    }
                }
            }
        }
        problems
    });
    run.eval(1);
    match r {
        Err(p) => run.violation(
            format!("{ID}:scheme-panic:{label}"),
            format!("scheme [{label}]: panicked: {p}"),
            json!({"kind": "c15-scheme", "fields": fields.iter().map(|(n, t, o)| json!([n, serde_json::to_value(t).unwrap(), o])).collect::<Vec<_>>()}),
        ),
        Ok(problems) => {
            for pr in problems {
                run.violation(
                    format!("{ID}:scheme:{pr}:{label}"),
                    format!("scheme [{label}]: {pr}"),
                    json!({"kind": "c15-scheme", "fields": fields.iter().map(|(n, t, o)| json!([n, serde_json::to_value(t).unwrap(), o])).collect::<Vec<_>>()}),
                );
            }
        }
    }
}

pub fn run(tier: Tier, seed: u64) -> i32 {
    let run = Run::new(ID, "exploration", tier, seed);
    run.assume("bit layout of the flattened form as documented: outermost layer = least significant bit, Array = 0, Map = 1, primitive codes Ip=1 Bytes=2 Int=3 Bool=4");

    // ---- every type up to N layers -------------------------------------------------------
    let full = tier.pick(9usize, 13usize);
    for n in 0..=full {
        let jobs = 1usize << n;
        par_for(jobs, ncpu(), |code| {
            let layers: Vec<bool> = (0..n).map(|i| (code >> i) & 1 == 1).collect();
            for p in PRIMS {
                check_type(&run, &layers, p);
            }
        });
        run.count("types_exhaustive", (jobs * 4) as u64);
    }
    // ---- deeper: structured families up to 32 layers -----------------------------------------
    for n in full + 1..=32 {
        let mut fams: Vec<Vec<bool>> = vec![vec![false; n], vec![true; n], (0..n).map(|i| i % 2 == 0).collect(), (0..n).map(|i| i % 2 == 1).collect()];
        for pos in 0..n {
            let mut a = vec![false; n];
            a[pos] = true;
            fams.push(a);
            let mut m = vec![true; n];
            m[pos] = false;
            fams.push(m);
        }
        for layers in fams {
            for p in PRIMS {
                check_type(&run, &layers, p);
                run.count("types_structured", 1);
            }
        }
    }
    // ---- descriptors the flattened form cannot hold ------------------------------------------------
    for n in 33..=130usize {
        let fams: Vec<Vec<bool>> = vec![
            vec![false; n],
            vec![true; n],
            (0..n).map(|i| i % 2 == 0).collect(),
            {
                let mut v = vec![false; n];
                v[n - 1] = true; // innermost layer is a map
                v
            },
            {
                let mut v = vec![true; n];
                v[0] = false;
                v
            },
        ];
        for layers in fams {
            check_deep_json(&run, &layers, if n % 2 == 0 { Prim::Bytes } else { Prim::Int });
        }
    }

    // ---- schemes -----------------------------------------------------------------------------------------
    let variants = field_variants();
    let nn = NAMES.len();
    let mut selections: Vec<Vec<usize>> = vec![vec![]];
    for a in 0..nn {
        selections.push(vec![a]);
        for b in 0..nn {
            if b != a {
                selections.push(vec![a, b]);
                for c in 0..nn {
                    if c != a && c != b {
                        selections.push(vec![a, b, c]);
                    }
                }
            }
        }
    }
    let nv = variants.len();
    par_for(selections.len(), ncpu(), |si| {
        let sel = &selections[si];
        // all variant assignments for selections of <= 2 fields; a rotating assignment for triples (quick)
        let combos: Vec<Vec<usize>> = if sel.len() <= 2 || tier == Tier::Thorough {
            let total = nv.pow(sel.len() as u32);
            (0..total)
                .map(|mut code| {
                    let mut v = Vec::new();
                    for _ in 0..sel.len() {
                        v.push(code % nv);
                        code /= nv;
                    }
                    v
                })
                .collect()
        } else {
            (0..nv).map(|k| (0..sel.len()).map(|i| (k + i * 2 + si) % nv).collect()).collect()
        };
        for combo in combos {
            let fields: Vec<(String, Type, bool)> = sel.iter().zip(combo.iter()).map(|(n, v)| (NAMES[*n].to_string(), variants[*v].0, variants[*v].1)).collect();
            check_scheme(&run, &fields);
            run.count("schemes", 1);
        }
    });
    {
        // one 40-field scheme, names in non-alphabetical order
        let fields: Vec<(String, Type, bool)> = (0..40).map(|i| (format!("f{}.x{}", (i * 7) % 40, i), variants[i % nv].0, variants[i % nv].1)).collect();
        check_scheme(&run, &fields);
        run.count("schemes", 1);
    }
    // duplicates are refused by every text feed
    for doc in [
        r#"{"a":{"type":"Int","optional":false},"a":{"type":"Int","optional":false}}"#,
        r#"{"a":{"type":"Int","optional":false},"b":{"type":"Ip","optional":true},"a":{"type":"Bytes","optional":true}}"#,
        r#"{"a"b":{"type":"Int","optional":false},"a\"b":{"type":"Int","optional":false}}"#,
        r#"{"é":{"type":"Int","optional":false},"é":{"type":"Int","optional":false}}"#,
    ] {
        let feeds: Vec<(&str, Result<bool, String>)> = vec![
            ("from_str", guarded(|| serde_json::from_str::<Scheme>(doc).is_ok())),
            ("from_slice", guarded(|| serde_json::from_slice::<Scheme>(doc.as_bytes()).is_ok())),
            ("from_reader", guarded(|| serde_json::from_reader::<_, Scheme>(doc.as_bytes()).is_ok())),
        ];
        for (name, got) in feeds {
            run.eval(1);
            run.count("duplicate_documents", 1);
            if got != Ok(false) {
                run.violation(
                    format!("{ID}:duplicate-accepted:{name}:{doc}"),
                    format!("{name}: scheme JSON with a duplicate field name was not refused: {got:?}: {doc}"),
                    json!({"kind": "c15-dup", "doc": doc}),
                );
            }
        }
    }
    // malformed scheme documents: never a panic
    for doc in ["", "{", "[]", "null", "{\"a\":1}", "{\"a\":{\"type\":\"Int\"}}", "{\"a\":{\"type\":\"Nope\",\"optional\":true}}", "{\"a\":{\"type\":{\"Array\":1},\"optional\":true}}", "{\"a\":{\"optional\":false,\"type\":\"Int\"}}"] {
        let got = guarded(|| serde_json::from_str::<Scheme>(doc).is_ok());
        run.eval(1);
        if got.is_err() {
            run.violation(
                format!("{ID}:scheme-doc-panic:{doc}"),
                format!("deserialising the scheme document {doc:?} panicked"),
                json!({"kind": "c15-dup", "doc": doc}),
            );
        }
    }

    run.sample(5, || json!({"type": "AMAInt", "json": expected_json(&[false, true, false], Prim::Int), "bits": format!("{:#b}", expected_bits(&[false, true, false])), "len": 3, "primitive": 3}));
    run.sample(5, || json!({"descriptor_layers": 34, "expected": "rejected with an error"}));
    run.sample(5, || json!({"scheme": [["a\"b", "Int", false], ["é", {"Map": {"Array": "Bytes"}}, true]], "feeds": ["from_str", "from_slice", "from_reader", "Value", "&Value"]}));
    let t = run.counter("types_exhaustive") + run.counter("types_structured");
    run.finish(
        t,
        "every type with <=9 (quick) / <=13 (thorough) layers x 4 primitives, structured families up to 32 layers: Type <-> CompoundType <-> C type conversions, C constructors, independent bit string, JSON through five feeds and the C serialiser; descriptors of 33..130 layers (error or faithful, never a panic or a different type); every ordered selection of <=3 of 8 hostile field names x type/optional variants + a 40-field scheme through five feeds; duplicate and malformed scheme documents; distinct_nontrivial = distinct types converted",
        true,
        &[("types_exhaustive", 1000), ("deep_rejected", 100), ("schemes", 1000), ("duplicate_documents", 6)],
    )
}
