//! C05 — parsing is total (shape P, exhaustive over a token alphabet and edit neighbourhoods;
//! size stressors in a subprocess).

use crate::ev::{Run, Tier, guarded, ncpu};
use crate::unis;
use serde_json::json;
use std::sync::Mutex;
use std::sync::atomic::{AtomicBool, AtomicU64, AtomicUsize, Ordering};
use std::time::{Duration, Instant};
use wirefilter::Scheme;

pub const ID: &str = "C05";

const TOKENS: [&str; 48] = [
    "t", "s", "xi", "mi", "i == ", "s == ", "s in {", "ip == ", "idb(", "any(", "(", ")", "[", "]", "{", "}", "*", "\"", "r#\"", "\"#",
    "\\", "\\x", "0", "9f", "-", "..", "/", ":", ".", "==", "in", "$", " and ", "not ", ",", " ", "\n", "é", "😢", "\0", "\t",
    "1.2.3.4", "::1", "~", " matches ", " wildcard ", "ms[", "!",
];

const CORPUS: [&str; 62] = [
    "t",
    "not t",
    "!t and u",
    "t or u xor t",
    "(t)",
    "((t) and (u))",
    "i == 1",
    "i != -9223372036854775808",
    "i >= 0x7f",
    "i <= 017",
    "i & 6",
    "i bitwise_and 0xff",
    "i in {1 2..5 0x10}",
    "i in {}",
    "s == \"a\"",
    "s == \"a\\x41\\\"b\\\\\"",
    "s != \"\\101\\377\"",
    "s == \"é😢\"",
    "s == r\"a\\b\"",
    "s == r#\"a\"b\"#",
    "s == r##\"a\"#b\"##",
    "s == 61:62:63",
    "s == 0A-0b.0C",
    "s contains \"ab\"",
    "s contains 61:62",
    "s matches \"^a[bc]\\\"+$\"",
    "s ~ r#\"[\"]a|b\"#",
    "s wildcard \"a*b\\\\*\"",
    "s strict wildcard r\"*.é\"",
    "s in {\"a\" 62:63 r\"c\"}",
    "ip == 1.2.3.4",
    "ip == ::ffff:1.2.3.4",
    "ip in {10.0.0.0/8 ::1 1.1.1.1..1.1.1.9 2001:db8::/32}",
    "ip < 2001:DB8::1",
    "xi[0] == 1",
    "xi[ 4294967295 ] != 2",
    "mi[\"a b\"] == 3",
    "ms[\"é\"] == \"é\"",
    "xxi[0][1] >= 2",
    "any(xi[*] == 1)",
    "all(mi[*] in {1 2})",
    "any(xxi[*][*] < 3)",
    "any(xb)",
    "all((xb) and not yb)",
    "any(not xb or yb)",
    "idb(s) == \"a\"",
    "len(idb(up(s))) == 1",
    "opt(s, 3, \"q\") != \"\"",
    "cat2(s, \"lit\") == \"a+lit\"",
    "pick(s, i == 1) == \"a\"",
    "pick(s, (t or u)) == \"a\"",
    "any(idb(xs[*])[*] == \"a\")",
    "concat(s, \"x\", xs[0]) == \"ax\"",
    "cnt(xi[*] >= 2) > 1",
    "i in $a",
    "s in $b.c_1",
    "any(xs[*] in $b)",
    "t and\n  i == 1\n  or s == \"multi\nline\"",
    "i == 1 and\r\ns contains \"x\" or\nnot (ip == ::1)\n",
    "  \t t \u{a0}",
    "nul() == \"z\"",
    "fb(fb(t)) and fa(xb)[0]",
];

const INSERT: [&str; 36] = [
    "(", ")", "[", "]", "{", "}", "\"", "\\", "#", "*", "$", ".", ":", "/", "-", ",", " ", "\n", "é", "😢", "\0", "a", "0", "9", "r",
    "x", "&", "|", "!", "=", "<", "~", "\t", "\u{85}", "_", "+",
];

/// What `Display` of a parse error must look like, read from the text only.
fn check_error_text(input: &str, display: &str) -> Result<(), String> {
    // header line: any wording, ending in `(L:C):`
    let nl = display.find('\n').ok_or("no header line")?;
    let (header, after) = (&display[..nl], &display[nl + 1..]);
    let open = header.rfind('(').ok_or("header has no (L:C)")?;
    let close = header[open..].find(')').ok_or("header has no (L:C)")? + open;
    let pos = &header[open + 1..close];
    let (l, c) = pos.split_once(':').ok_or("no L:C")?;
    let l: usize = l.parse().map_err(|_| "line number not numeric")?;
    let c: usize = c.parse().map_err(|_| "column not numeric")?;
    let lines: Vec<&str> = input.split('\n').collect();
    if l < 1 || l > lines.len() {
        return Err(format!("line {l} is not a line of the input ({} lines)", lines.len()));
    }
    let line = lines[l - 1];
    let after = after.strip_prefix(line).ok_or_else(|| format!("printed line differs from line {l} of the input"))?;
    let after = after.strip_prefix('\n').ok_or("no newline after the printed line")?;
    if c < 1 {
        return Err("column 0".into());
    }
    let blanks = after.bytes().take_while(|b| *b == b' ').count();
    if blanks != c - 1 {
        return Err(format!("{blanks} blanks before the carets but column {c}"));
    }
    let carets = after[blanks..].bytes().take_while(|b| *b == b'^').count();
    if carets < 1 {
        return Err("no caret".into());
    }
    if c - 1 > line.len() {
        return Err(format!("column {c} lies beyond the line (length {})", line.len()));
    }
    if carets > 1 && c - 1 + carets > line.len() {
        return Err(format!("carets {}..{} exceed the line (length {})", c - 1, c - 1 + carets, line.len()));
    }
    if !after[blanks + carets..].starts_with(' ') || !display.ends_with('\n') {
        return Err("message part malformed".into());
    }
    Ok(())
}

struct Watch {
    slots: Vec<(AtomicU64, Mutex<String>)>,
    epoch: Instant,
    done: AtomicBool,
}

thread_local! {
    static SLOT: std::cell::Cell<usize> = const { std::cell::Cell::new(usize::MAX) };
}
static NEXT_SLOT: AtomicUsize = AtomicUsize::new(0);

impl Watch {
    fn begin(&self, input: &str) {
        let slot = SLOT.with(|s| {
            if s.get() == usize::MAX {
                s.set(NEXT_SLOT.fetch_add(1, Ordering::Relaxed) % self.slots.len());
            }
            s.get()
        });
        *self.slots[slot].1.lock().unwrap() = input.to_string();
        self.slots[slot].0.store(self.epoch.elapsed().as_millis() as u64 + 1, Ordering::Relaxed);
    }
    fn end(&self) {
        let slot = SLOT.with(|s| s.get());
        self.slots[slot].0.store(0, Ordering::Relaxed);
    }
}

/// Parses one input through both entry points and checks the totality contract.
fn judge(run: &Run, scheme: &Scheme, watch: &Watch, input: &str, stats: &Stats) {
    for value_mode in [false, true] {
        watch.begin(input);
        let r = guarded(|| {
            let out: Result<(), (String, String)> = if value_mode {
                scheme.parse_value(input).map(|_| ()).map_err(|e| (format!("{e}"), format!("{e:?}")))
            } else {
                scheme.parse(input).map(|_| ()).map_err(|e| (format!("{e}"), format!("{e:?}")))
            };
            out
        });
        watch.end();
        run.eval(1);
        let entry = if value_mode { "parse_value" } else { "parse" };
        match r {
            Err(p) => run.violation(
                format!("{ID}:panic:{entry}:{input}"),
                format!("{entry}({input:?}) panicked: {p}"),
                json!({"kind": "c05-input", "entry": entry, "input": input}),
            ),
            Ok(Ok(())) => {
                stats.accepted.fetch_add(1, Ordering::Relaxed);
            }
            Ok(Err((display, _debug))) => {
                stats.rejected.fetch_add(1, Ordering::Relaxed);
                if input.contains('\n') {
                    stats.multiline_errors.fetch_add(1, Ordering::Relaxed);
                }
                if let Err(why) = check_error_text(input, &display) {
                    run.violation(
                        format!("{ID}:malformed-error:{entry}:{input}"),
                        format!("{entry}({input:?}): error text is not well formed: {why}: {display:?}"),
                        json!({"kind": "c05-input", "entry": entry, "input": input}),
                    );
                }
            }
        }
    }
}

#[derive(Default)]
struct Stats {
    accepted: AtomicU64,
    rejected: AtomicU64,
    multiline_errors: AtomicU64,
}

fn edits(base: &str, out: &mut Vec<String>) {
    let idx: Vec<usize> = base.char_indices().map(|(i, _)| i).chain(std::iter::once(base.len())).collect();
    for w in idx.windows(2) {
        let (a, b) = (w[0], w[1]);
        out.push(format!("{}{}", &base[..a], &base[b..])); // delete
        out.push(format!("{}{}{}", &base[..b], &base[a..b], &base[b..])); // duplicate
        out.push(base[..a].to_string()); // truncate before
    }
    for &p in &idx {
        for ins in INSERT {
            out.push(format!("{}{}{}", &base[..p], ins, &base[p..]));
        }
    }
}

pub fn run(tier: Tier, seed: u64) -> i32 {
    let run = Run::new(ID, "exploration", tier, seed);
    run.assume("inputs: all strings of <=4 (quick) / <=5 (thorough) tokens over a 48-token alphabet, the complete single-edit (thorough: double-edit on the shortest) neighbourhood of a 62-filter corpus, and the listed size stressors; per-input time cap 10 s");
    let (_, uni) = unis::containers(true);
    let scheme = uni.build();
    let stats = Stats::default();
    let watch = Watch {
        slots: (0..64).map(|_| (AtomicU64::new(0), Mutex::new(String::new()))).collect(),
        epoch: Instant::now(),
        done: AtomicBool::new(false),
    };
    let hang = Mutex::new(None::<String>);

    std::thread::scope(|sc| {
        // watchdog: a parse that does not return is a violation (the stuck thread cannot be unwound)
        sc.spawn(|| {
            while !watch.done.load(Ordering::Relaxed) {
                std::thread::sleep(Duration::from_millis(200));
                let now = watch.epoch.elapsed().as_millis() as u64;
                for (started, input) in &watch.slots {
                    let s = started.load(Ordering::Relaxed);
                    if s != 0 && now > s + 10_000 {
                        let inp = input.lock().unwrap().clone();
                        *hang.lock().unwrap() = Some(inp.clone());
                        run.violation(
                            format!("{ID}:no-termination:{inp}"),
                            format!("parsing {inp:?} did not return within 10 s"),
                            json!({"kind": "c05-input", "entry": "parse", "input": inp}),
                        );
                        let code = run.finish(0, "aborted: a parse did not terminate", false, &[]);
                        std::process::exit(code.max(1));
                    }
                }
            }
        });

        // ---- (1) token strings ---------------------------------------------------------
        let max_tokens = tier.pick(4usize, 5usize);
        let nt = TOKENS.len();
        for len in 0..=max_tokens {
            let jobs = nt.pow(len as u32);
            let chunk = 4096usize;
            let nchunks = jobs.div_ceil(chunk);
            crate::ev::par_for(nchunks, ncpu(), |ci| {
                for j in ci * chunk..((ci + 1) * chunk).min(jobs) {
                    let mut x = j;
                    let mut s = String::new();
                    for _ in 0..len {
                        s.push_str(TOKENS[x % nt]);
                        x /= nt;
                    }
                    judge(&run, &scheme, &watch, &s, &stats);
                    if j % 100_003 == 17 {
                        run.sample(6, || json!({"layer": "tokens", "input": s}));
                    }
                }
            });
            run.count("token_strings", jobs as u64);
        }

        // ---- (2) edit neighbourhoods ------------------------------------------------------
        let mut singles: Vec<String> = Vec::new();
        for base in CORPUS {
            singles.push(base.to_string());
            edits(base, &mut singles);
        }
        singles.sort();
        singles.dedup();
        run.count("single_edits", singles.len() as u64);
        crate::ev::par_for(singles.len(), ncpu(), |k| {
            judge(&run, &scheme, &watch, &singles[k], &stats);
            if k % 9973 == 5 {
                run.sample(12, || json!({"layer": "single-edit", "input": singles[k]}));
            }
        });
        if tier == Tier::Thorough {
            let mut shortest: Vec<&str> = CORPUS.to_vec();
            shortest.sort_by_key(|s| s.len());
            for base in shortest.into_iter().take(15) {
                let mut first = Vec::new();
                edits(base, &mut first);
                first.sort();
                first.dedup();
                crate::ev::par_for(first.len(), ncpu(), |k| {
                    let mut second = Vec::new();
                    edits(&first[k], &mut second);
                    for s in &second {
                        judge(&run, &scheme, &watch, s, &stats);
                    }
                    run.count("double_edits", second.len() as u64);
                });
            }
        }
        watch.done.store(true, Ordering::Relaxed);
    });

    // ---- (3) size stressors in a subprocess (a stack overflow kills the worker, not the check) ----
    match size_worker() {
        Ok(n) => run.count("size_stressors", n),
        Err(msg) => run.violation(
            format!("{ID}:size-stressor"),
            format!("size stressors: {msg}"),
            json!({"kind": "c05-size", "detail": msg}),
        ),
    }

    run.set("accepted_inputs", json!(stats.accepted.load(Ordering::Relaxed)));
    run.set("rejected_inputs", json!(stats.rejected.load(Ordering::Relaxed)));
    run.count("multiline_errors", stats.multiline_errors.load(Ordering::Relaxed));
    run.count("accepted_inputs", stats.accepted.load(Ordering::Relaxed));
    run.finish(
        stats.accepted.load(Ordering::Relaxed).min(stats.rejected.load(Ordering::Relaxed)),
        "every token string up to the bound and every single edit of every corpus filter through parse and parse_value: no panic, returns within the cap, error text well formed (line is a line of the input, column range inside it); size stressors on a 2 MiB stack; distinct_nontrivial = min(#accepted, #rejected) inputs",
        true,
        &[("token_strings", 10000), ("single_edits", 10000), ("size_stressors", 20), ("multiline_errors", 100), ("accepted_inputs", 100)],
    )
}

fn size_worker() -> Result<u64, String> {
    let exe = std::env::current_exe().map_err(|e| e.to_string())?;
    let mut child = std::process::Command::new(exe)
        .args(["worker", "c05size"])
        .stdout(std::process::Stdio::piped())
        .stderr(std::process::Stdio::null())
        .spawn()
        .map_err(|e| e.to_string())?;
    let start = Instant::now();
    // drain the worker's output while it runs (it would block on a full pipe otherwise)
    let reader = child.stdout.take().map(|mut so| {
        std::thread::spawn(move || {
            use std::io::Read;
            let mut out = String::new();
            let _ = so.read_to_string(&mut out);
            out
        })
    });
    let mut reader = reader;
    loop {
        match child.try_wait().map_err(|e| e.to_string())? {
            Some(status) => {
                let out = reader.take().and_then(|h| h.join().ok()).unwrap_or_default();
                let last_started = out.lines().filter_map(|l| l.strip_prefix("START ")).last().unwrap_or("?").to_string();
                if !status.success() {
                    return Err(format!("the worker died ({status:?}) while parsing the stressor `{last_started}`"));
                }
                if let Some(f) = out.lines().find_map(|l| l.strip_prefix("FAIL ")) {
                    return Err(f.to_string());
                }
                return out
                    .lines()
                    .find_map(|l| l.strip_prefix("OK "))
                    .and_then(|n| n.trim().parse().ok())
                    .ok_or_else(|| "worker output not understood".to_string());
            }
            None => {
                if start.elapsed() > Duration::from_secs(240) {
                    let _ = child.kill();
                    return Err("a size stressor did not terminate within 240 s".into());
                }
                std::thread::sleep(Duration::from_millis(50));
            }
        }
    }
}

pub fn stressors() -> Vec<(String, String)> {
    let n = 100_000usize;
    let mut v: Vec<(String, String)> = Vec::new();
    for op in ["and", "or", "xor", "&&", "||", "^^"] {
        v.push((format!("flat chain of {n} operands with `{op}`"), vec!["t"; n].join(&format!(" {op} "))));
    }
    v.push((format!("mixed-precedence chain of {n} operands"), (0..n).map(|i| if i % 3 == 0 { "t or " } else if i % 3 == 1 { "u and " } else { "t xor " }).collect::<String>() + "u"));
    v.push((format!("chain of {n} comparisons"), vec!["i == 1"; n].join(" or ")));
    for (name, open, close) in [("(", "(", ")"), ("not ", "not ", ""), ("!", "!", ""), ("any(", "any(", ")"), ("idb(", "idb(", ")"), ("fb(", "fb(", ")")] {
        v.push((format!("{n}-deep nesting of `{name}`"), format!("{}{}{}", open.repeat(n), "t", close.repeat(n))));
        v.push((format!("{n}-deep unbalanced nesting of `{name}`"), open.repeat(n)));
    }
    v.push((format!("{n} opening brackets after a field"), format!("xi{}", "[".repeat(n))));
    v.push((format!("{n} index accesses"), format!("xi{} == 1", "[0]".repeat(n))));
    v.push((format!("{n} opening braces"), format!("i in {}", "{".repeat(n))));
    v.push((format!("list of {n} items"), format!("i in {{{}}}", vec!["1..2"; n].join(" "))));
    v.push((format!("list of {n} strings"), format!("s in {{{}}}", vec!["\"ab\""; n].join(" "))));
    for h in [255usize, 256, n] {
        let hs = "#".repeat(h);
        v.push((format!("raw string with {h} hashes"), format!("s == r{hs}\"a\"{hs}")));
        v.push((format!("unterminated raw string with {h} hashes"), format!("s == r{hs}\"a\"")));
    }
    // runs of one character around the widths of narrow counters (u8, u16), behind every prefix
    // that puts the lexer into a different state
    for prefix in ["s == r\"a\"", "s == r#\"a\"", "s == r##\"a\"#", "s == r#\"", "s == \"a", "s == \"a\\", "s == ", "i == ", "i == 0x", "i == 0", "i in {1..", "xi[", "ms[\"", "s wildcard \"", "s matches \"a", "ip == 1.2.3.4/", "ip == ::", "idb("] {
        for unit in ["#", "\"", "\\", "*", ".", ":", "-", "0", "7", "f", "(", "[", " ", "\n"] {
            for count in [254usize, 255, 256, 257, 65535, 65536, 65537] {
                v.push((format!("{prefix:?} followed by {count} x {unit:?}"), format!("{prefix}{}", unit.repeat(count))));
                if count <= 257 {
                    v.push((format!("{prefix:?} followed by {count} x {unit:?} and a closing quote"), format!("{prefix}{}\"", unit.repeat(count))));
                }
            }
        }
    }
    v.push((format!("call with {n} arguments"), format!("concat({}) == \"a\"", vec!["s"; n].join(", "))));
    v.push((format!("identifier of {n} characters"), "a".repeat(n)));
    v.push((format!("dotted identifier of {n} segments"), vec!["a"; n].join(".")));
    v.push((format!("quoted string of {n} characters"), format!("s == \"{}\"", "é".repeat(n))));
    v.push((format!("quoted string of {n} escapes"), format!("s == \"{}\"", "\\x41".repeat(n))));
    v.push((format!("hex pairs x {n}"), format!("s == {}", vec!["ab"; n].join(":"))));
    v.push((format!("{n} blank lines then an error"), format!("{}$", "\n".repeat(n))));
    v.push((format!("{n} spaces"), " ".repeat(n)));
    // nesting *inside* a literal: the filter-level nesting limit does not see it
    for (name, open, close) in [("groups", "(", ")"), ("non-capturing groups", "(?:", ")"), ("classes", "[a[", "]]")] {
        v.push((format!("regex of {n} nested {name}"), format!("s matches \"{}a{}\"", open.repeat(n), close.repeat(n))));
        v.push((format!("raw regex of {n} nested {name}"), format!("s matches r#\"{}a{}\"#", open.repeat(n), close.repeat(n))));
        v.push((format!("regex of {n} unclosed {name}"), format!("s matches \"{}a\"", open.repeat(n))));
    }
    v.push((format!("regex of {n} stacked quantified groups"), format!("s matches \"{}a{}\"", "(".repeat(n), ")?".repeat(n))));
    v.push((format!("regex of {n} optional atoms"), format!("s matches \"{}\"", "a?".repeat(n))));
    v.push((format!("regex with a counted repetition of {n}"), format!("s matches \"(a{{1,{n}}}){{1,{n}}}\"")));
    v.push((format!("wildcard of {n} escapes"), format!("s wildcard \"{}\"", "\\\\*".repeat(n))));
    v.push((format!("regex of {n} alternations"), format!("s matches \"{}\"", vec!["a"; 2000].join("|"))));
    v.push((format!("wildcard of {n} stars"), format!("s wildcard \"{}\"", "a*".repeat(5000))));
    v
}

pub fn worker_size() -> i32 {
    crate::ev::quiet_panics();
    let (_, uni) = unis::containers(true);
    let scheme = uni.build();
    let mut done = 0u64;
    for (name, input) in stressors() {
        println!("START {name}");
        let sc = scheme.clone();
        let name2 = name.clone();
        let h = std::thread::Builder::new()
            .stack_size(2 << 20)
            .spawn(move || {
                let t = Instant::now();
                for value_mode in [false, true] {
                    let r = guarded(|| {
                        let out: Result<(), String> = if value_mode {
                            sc.parse_value(&input).map(|_| ()).map_err(|e| format!("{e}"))
                        } else {
                            sc.parse(&input).map(|a| {
                                // an accepted giant filter must also serialise, compile and drop
                                let _ = serde_json::to_string(&a).map(|s| s.len());
                                let f = a.compile();
                                drop(f);
                            }).map_err(|e| format!("{e}"))
                        };
                        out
                    });
                    match r {
                        Err(p) => return Err(format!("`{name2}`: panicked: {p}")),
                        Ok(Err(display)) => {
                            if let Err(why) = check_error_text(&input, &display) {
                                return Err(format!("`{name2}`: error text not well formed: {why}"));
                            }
                        }
                        Ok(Ok(())) => {}
                    }
                }
                if t.elapsed() > Duration::from_secs(60) {
                    return Err(format!("`{name2}` took {:?}", t.elapsed()));
                }
                Ok(())
            })
            .expect("spawn");
        match h.join() {
            Ok(Ok(())) => done += 1,
            Ok(Err(msg)) => {
                println!("FAIL {msg}");
                return 0;
            }
            Err(_) => {
                println!("FAIL `{name}`: worker thread panicked");
                return 0;
            }
        }
    }
    println!("OK {done}");
    0
}

pub fn replay(case: &serde_json::Value) -> Result<u64, String> {
    let input = case["input"].as_str().ok_or("input")?;
    let (_, uni) = unis::containers(true);
    let scheme = uni.build();
    let run = Run::new("replay", "exploration", Tier::Quick, 0);
    let watch = Watch { slots: (0..4).map(|_| (AtomicU64::new(0), Mutex::new(String::new()))).collect(), epoch: Instant::now(), done: AtomicBool::new(false) };
    judge(&run, &scheme, &watch, input, &Stats::default());
    Ok(run.violations_seen())
}
