//! C14 — execution contexts survive serialisation and reject bad JSON safely (shape P, exhaustive).

use crate::corpus;
use crate::ev::{Run, Tier, guarded, ncpu, par_for};
use crate::sem::Env;
use crate::uni::{ListKind, MCtx, MLists, SetMatcher, Uni, install_sets, real_ctx};
use crate::unis;
use crate::val::{Ty, V};
use serde::de::DeserializeSeed;
use serde_json::{Value, json};
use std::collections::{BTreeMap, BTreeSet};
use std::net::IpAddr;
use wirefilter::{ExecutionContext, Filter, Scheme};

pub const ID: &str = "C14";

/// JSON tree with ordered object entries (duplicates possible).
#[derive(Clone, Debug, PartialEq)]
pub enum J {
    Null,
    Bool(bool),
    /// number as written
    Num(String),
    Str(String),
    Arr(Vec<J>),
    Obj(Vec<(String, J)>),
}

impl J {
    pub fn print(&self) -> String {
        match self {
            J::Null => "null".into(),
            J::Bool(b) => b.to_string(),
            J::Num(n) => n.clone(),
            J::Str(s) => serde_json::to_string(s).unwrap(),
            J::Arr(v) => format!("[{}]", v.iter().map(|j| j.print()).collect::<Vec<_>>().join(",")),
            J::Obj(v) => format!("{{{}}}", v.iter().map(|(k, j)| format!("{}:{}", serde_json::to_string(k).unwrap(), j.print())).collect::<Vec<_>>().join(",")),
        }
    }
    fn to_value(&self) -> Value {
        match self {
            J::Null => Value::Null,
            J::Bool(b) => Value::Bool(*b),
            J::Num(n) => serde_json::from_str::<Value>(n).unwrap_or(Value::Null),
            J::Str(s) => Value::String(s.clone()),
            J::Arr(v) => Value::Array(v.iter().map(|j| j.to_value()).collect()),
            J::Obj(v) => Value::Object(v.iter().map(|(k, j)| (k.clone(), j.to_value())).collect()),
        }
    }
    fn from_value(v: &Value) -> J {
        match v {
            Value::Null => J::Null,
            Value::Bool(b) => J::Bool(*b),
            Value::Number(n) => J::Num(n.to_string()),
            Value::String(s) => J::Str(s.clone()),
            Value::Array(a) => J::Arr(a.iter().map(J::from_value).collect()),
            Value::Object(o) => J::Obj(o.iter().map(|(k, v)| (k.clone(), J::from_value(v))).collect()),
        }
    }
}

/// Minimal order-preserving JSON parser (objects keep entry order and duplicates).
pub fn parse_j(text: &str) -> Option<J> {
    struct P<'a> {
        s: &'a [u8],
        i: usize,
    }
    impl P<'_> {
        fn ws(&mut self) {
            while self.i < self.s.len() && matches!(self.s[self.i], b' ' | b'\n' | b'\r' | b'\t') {
                self.i += 1;
            }
        }
        fn eat(&mut self, lit: &str) -> Option<()> {
            if self.s[self.i..].starts_with(lit.as_bytes()) {
                self.i += lit.len();
                Some(())
            } else {
                None
            }
        }
        fn string(&mut self) -> Option<String> {
            // delegate escapes to serde_json: find the closing quote first
            let start = self.i;
            self.i += 1;
            while self.i < self.s.len() {
                match self.s[self.i] {
                    b'\\' => self.i += 2,
                    b'"' => {
                        self.i += 1;
                        let raw = std::str::from_utf8(&self.s[start..self.i]).ok()?;
                        return serde_json::from_str::<String>(raw).ok();
                    }
                    _ => self.i += 1,
                }
            }
            None
        }
        fn value(&mut self, depth: usize) -> Option<J> {
            if depth > 200 {
                return None;
            }
            self.ws();
            let c = *self.s.get(self.i)?;
            let v = match c {
                b'n' => self.eat("null").map(|_| J::Null)?,
                b't' => self.eat("true").map(|_| J::Bool(true))?,
                b'f' => self.eat("false").map(|_| J::Bool(false))?,
                b'"' => J::Str(self.string()?),
                b'[' => {
                    self.i += 1;
                    let mut items = Vec::new();
                    self.ws();
                    if self.s.get(self.i) == Some(&b']') {
                        self.i += 1;
                    } else {
                        loop {
                            items.push(self.value(depth + 1)?);
                            self.ws();
                            match self.s.get(self.i)? {
                                b',' => self.i += 1,
                                b']' => {
                                    self.i += 1;
                                    break;
                                }
                                _ => return None,
                            }
                        }
                    }
                    J::Arr(items)
                }
                b'{' => {
                    self.i += 1;
                    let mut items = Vec::new();
                    self.ws();
                    if self.s.get(self.i) == Some(&b'}') {
                        self.i += 1;
                    } else {
                        loop {
                            self.ws();
                            if self.s.get(self.i) != Some(&b'"') {
                                return None;
                            }
                            let k = self.string()?;
                            self.ws();
                            if self.s.get(self.i) != Some(&b':') {
                                return None;
                            }
                            self.i += 1;
                            let v = self.value(depth + 1)?;
                            items.push((k, v));
                            self.ws();
                            match self.s.get(self.i)? {
                                b',' => self.i += 1,
                                b'}' => {
                                    self.i += 1;
                                    break;
                                }
                                _ => return None,
                            }
                        }
                    }
                    J::Obj(items)
                }
                b'-' | b'0'..=b'9' => {
                    let start = self.i;
                    while self.i < self.s.len() && matches!(self.s[self.i], b'-' | b'+' | b'.' | b'e' | b'E' | b'0'..=b'9') {
                        self.i += 1;
                    }
                    let raw = std::str::from_utf8(&self.s[start..self.i]).ok()?;
                    serde_json::from_str::<serde_json::Number>(raw).ok()?;
                    J::Num(raw.to_string())
                }
                _ => return None,
            };
            Some(v)
        }
    }
    let mut p = P { s: text.as_bytes(), i: 0 };
    let v = p.value(0)?;
    p.ws();
    if p.i == p.s.len() { Some(v) } else { None }
}

/// Expected serialisation of a model value.
fn value_j(v: &V) -> J {
    match v {
        V::Bool(b) => J::Bool(*b),
        V::Int(i) => J::Num(i.to_string()),
        V::Ip(ip) => J::Str(ip.to_string()),
        V::Bytes(b) => match std::str::from_utf8(b) {
            Ok(s) => J::Str(s.to_string()),
            Err(_) => J::Arr(b.iter().map(|c| J::Num(c.to_string())).collect()),
        },
        V::Arr(_, items) => J::Arr(items.iter().map(value_j).collect()),
        V::Map(_, items) => {
            if items.keys().all(|k| std::str::from_utf8(k).is_ok()) {
                J::Obj(items.iter().map(|(k, v)| (String::from_utf8(k.clone()).unwrap(), value_j(v))).collect())
            } else {
                J::Arr(items.iter().map(|(k, v)| J::Arr(vec![value_j(&V::Bytes(k.clone())), value_j(v)])).collect())
            }
        }
    }
}

/// What a JSON tree denotes for a type (dual encodings included); `None` = it cannot denote the type.
fn denote(j: &J, t: &Ty) -> Option<V> {
    match (t, j) {
        (Ty::Bool, J::Bool(b)) => Some(V::Bool(*b)),
        (Ty::Int, J::Num(n)) => n.parse::<i64>().ok().map(V::Int),
        (Ty::Ip, J::Str(s)) => s.parse::<IpAddr>().ok().map(V::Ip),
        (Ty::Bytes, J::Str(s)) => Some(V::Bytes(s.as_bytes().to_vec())),
        (Ty::Bytes, J::Arr(items)) => {
            let mut out = Vec::new();
            for i in items {
                match i {
                    J::Num(n) => out.push(n.parse::<u8>().ok()?),
                    _ => return None,
                }
            }
            Some(V::Bytes(out))
        }
        (Ty::Arr(e), J::Arr(items)) => {
            let mut out = Vec::new();
            for i in items {
                out.push(denote(i, e)?);
            }
            Some(V::Arr((**e).clone(), out))
        }
        (Ty::Map(e), J::Obj(entries)) => {
            let mut out = BTreeMap::new();
            for (k, v) in entries {
                out.insert(k.as_bytes().to_vec(), denote(v, e)?);
            }
            Some(V::Map((**e).clone(), out))
        }
        (Ty::Map(e), J::Arr(pairs)) => {
            let mut out = BTreeMap::new();
            for p in pairs {
                match p {
                    J::Arr(kv) if kv.len() == 2 => {
                        let k = match denote(&kv[0], &Ty::Bytes)? {
                            V::Bytes(b) => b,
                            _ => return None,
                        };
                        out.insert(k, denote(&kv[1], e)?);
                    }
                    _ => return None,
                }
            }
            Some(V::Map((**e).clone(), out))
        }
        _ => None,
    }
}

/// Reference reading of a type descriptor.
fn ty_from_j(j: &J) -> Option<Ty> {
    // iterative: descriptors may be very deep
    let mut layers: Vec<bool> = Vec::new();
    let mut cur = j;
    let prim = loop {
        match cur {
            J::Str(s) => {
                break match s.as_str() {
                    "Bool" => Ty::Bool,
                    "Int" => Ty::Int,
                    "Bytes" => Ty::Bytes,
                    "Ip" => Ty::Ip,
                    _ => return None,
                };
            }
            J::Obj(e) if e.len() == 1 && e[0].0 == "Array" => {
                layers.push(false);
                cur = &e[0].1;
            }
            J::Obj(e) if e.len() == 1 && e[0].0 == "Map" => {
                layers.push(true);
                cur = &e[0].1;
            }
            _ => return None,
        }
    };
    let mut t = prim;
    for l in layers.iter().rev() {
        t = if *l { Ty::map(t) } else { Ty::arr(t) };
    }
    Some(t)
}

/// Reference reading of a whole context document. `Err` = must be rejected.
fn denote_ctx(u: &Uni, doc: &J) -> Result<(MCtx, MLists), String> {
    let entries = match doc {
        J::Obj(e) => e,
        _ => return Err("not an object".into()),
    };
    let mut ctx = MCtx::new();
    let mut lists = MLists::new();
    for (k, v) in entries {
        if k == "$lists" {
            let items = match v {
                J::Arr(a) => a,
                _ => return Err("$lists is not an array".into()),
            };
            for it in items {
                let e = match it {
                    J::Obj(e) => e,
                    // a struct may also be given as a sequence [type, data]? the visitor only accepts a map
                    _ => return Err("list entry is not an object".into()),
                };
                if e.len() != 2 || e[0].0 != "type" || e[1].0 != "data" {
                    return Err("list entry must be {type, data}".into());
                }
                let ty: Ty = match ty_from_j(&e[0].1) {
                    Some(t) if t.depth() <= 33 => t,
                    _ => return Err("bad or unrepresentable list type".into()),
                };
                let idx = u.list_for(&ty).ok_or("no list for this type")?;
                match u.lists[idx].1 {
                    ListKind::Set => {
                        let m: SetMatcher = serde_json::from_value(e[1].1.to_value()).map_err(|e| e.to_string())?;
                        lists.insert(idx, m.sets);
                    }
                    _ => {}
                }
            }
        } else {
            let (_, t, _) = u.field(k).ok_or_else(|| format!("unknown field {k}"))?;
            let val = denote(v, t).ok_or_else(|| format!("value of {k} cannot denote {}", t.short()))?;
            ctx.insert(k.clone(), val);
        }
    }
    Ok((ctx, lists))
}

fn expected_doc(u: &Uni, m: &MCtx, lists: &MLists) -> J {
    let mut entries: Vec<(String, J)> = Vec::new();
    for (n, _, _) in &u.fields {
        if let Some(v) = m.get(n) {
            entries.push((n.clone(), value_j(v)));
        }
    }
    if !u.lists.is_empty() {
        let mut ls = Vec::new();
        for (i, (t, k)) in u.lists.iter().enumerate() {
            let data = match k {
                ListKind::Set => {
                    let sm = SetMatcher { sets: lists.get(&i).cloned().unwrap_or_default() };
                    J::from_value(&serde_json::to_value(&sm).unwrap())
                }
                _ => J::Obj(vec![]),
            };
            ls.push(J::Obj(vec![("type".into(), J::from_value(&serde_json::to_value(t.to_engine()).unwrap())), ("data".into(), data)]));
        }
        entries.push(("$lists".into(), J::Arr(ls)));
    }
    J::Obj(entries)
}

#[derive(Clone, Copy, Debug, PartialEq, Eq)]
enum Feed {
    Str,
    Slice,
    Reader,
    OwnedValue,
    RefValue,
    CApi,
}

const FEEDS: [Feed; 6] = [Feed::Str, Feed::Slice, Feed::Reader, Feed::OwnedValue, Feed::RefValue, Feed::CApi];

/// Deserialises `text` into a fresh context through one feed. Ok(ctx) / Err(message); panics are caught by the caller.
fn feed_ctx(scheme: &Scheme, text: &str, feed: Feed) -> Result<ExecutionContext<'static>, String> {
    let mut ctx = ExecutionContext::<()>::new(scheme);
    // the deserialised values borrow from the input: make the input outlive the context
    let owned: &'static str = Box::leak(text.to_string().into_boxed_str());
    match feed {
        Feed::Str => ctx.deserialize(&mut serde_json::Deserializer::from_str(owned)).map_err(|e| e.to_string())?,
        Feed::Slice => ctx.deserialize(&mut serde_json::Deserializer::from_slice(owned.as_bytes())).map_err(|e| e.to_string())?,
        Feed::Reader => ctx.deserialize(&mut serde_json::Deserializer::from_reader(owned.as_bytes())).map_err(|e| e.to_string())?,
        Feed::OwnedValue => {
            let v: Value = serde_json::from_str(owned).map_err(|e| format!("not JSON: {e}"))?;
            ctx.deserialize(v).map_err(|e| e.to_string())?
        }
        Feed::RefValue => {
            let v: &'static Value = Box::leak(Box::new(serde_json::from_str::<Value>(owned).map_err(|e| format!("not JSON: {e}"))?));
            ctx.deserialize(v).map_err(|e| e.to_string())?
        }
        Feed::CApi => {
            let mut c = wirefilter_ffi::ExecutionContext::from(ctx);
            let ok = wirefilter_ffi::wirefilter_deserialize_json_to_execution_context(&mut c, owned.as_ptr(), owned.len());
            if !ok {
                return Err("C API returned false".into());
            }
            return Ok(c.into());
        }
    }
    Ok(ctx)
}

fn read_back(u: &Uni, scheme: &Scheme, ctx: &ExecutionContext<'_>) -> (MCtx, Vec<String>) {
    let mut m = MCtx::new();
    let mut problems = Vec::new();
    for (n, t, _) in &u.fields {
        if let Some(v) = ctx.get_field_value(scheme.get_field(n).unwrap()) {
            let mv = V::from_engine(v);
            if mv.ty() != *t || !mv.well_typed() {
                problems.push(format!("field {n} (declared {}) holds a value of type {}", t.short(), mv.ty().short()));
            }
            m.insert(n.clone(), mv);
        }
    }
    (m, problems)
}

fn field_alternatives(t: &Ty) -> Vec<V> {
    let mut v = super::c02::pool(t);
    match t {
        Ty::Int => v.extend([V::Int(i64::MIN), V::Int(i64::MAX)]),
        Ty::Bytes => v.extend([V::Bytes(vec![0xff, 0x00, b'"']), V::Bytes("é😢".as_bytes().to_vec())]),
        Ty::Ip => v.push(V::Ip("::ffff:1.2.3.4".parse().unwrap())),
        Ty::Arr(e) if **e == Ty::Bytes => v.push(V::arr(Ty::Bytes, vec![V::Bytes(vec![0xfe]), V::Bytes(b"a".to_vec())])),
        Ty::Arr(e) if **e == Ty::Int => v.push(V::arr(Ty::Int, vec![V::Int(i64::MIN), V::Int(i64::MAX), V::Int(0)])),
        Ty::Map(e) if **e == Ty::Bytes => v.push(V::map(Ty::Bytes, vec![(b"\xc3", V::Bytes(vec![0xc3])), (b"", V::Bytes(vec![]))])),
        _ => {}
    }
    v
}

fn list_states() -> Vec<MLists> {
    let set = |name: &str, vals: Vec<V>| -> BTreeMap<String, BTreeSet<V>> {
        let mut m = BTreeMap::new();
        m.insert(name.to_string(), vals.into_iter().collect());
        m
    };
    let mut full = MLists::new();
    let mut ints = set("a", vec![V::Int(1), V::Int(i64::MIN)]);
    ints.insert("c_1".into(), BTreeSet::new());
    full.insert(0, ints);
    full.insert(1, set("b.c", vec![V::Bytes(b"a".to_vec()), V::Bytes(vec![0xff])]));
    full.insert(2, set("c_1", vec![V::Ip("::1".parse().unwrap()), V::Ip("1.2.3.4".parse().unwrap())]));
    vec![MLists::new(), full]
}

pub fn run(tier: Tier, seed: u64) -> i32 {
    let run = Run::new(ID, "exploration", tier, seed);
    run.assume("expected documents and the reading of mutated documents come from the reference (value_j / denote); a map supplied as a value tree has no key order (serde_json::Value sorts keys)");
    let (_, uni) = unis::containers(true);
    let scheme = uni.build();
    let filters: Vec<(crate::ast::Expr, Filter)> = corpus::filters(&uni, 0)
        .into_iter()
        .filter(|e| !matches!(e, crate::ast::Expr::Chain(..)))
        .map(|e| {
            let f = scheme.parse(&crate::ast::render(&e)).expect("corpus filter parses").compile();
            (e, f)
        })
        .collect();
    run.set("filters_per_context", json!(filters.len()));

    // ---- contexts: base + <= 2 deviating fields ------------------------------------------------
    let mut base = MCtx::new();
    for (n, t, _) in &uni.fields {
        base.insert(n.clone(), super::c02::pool(t)[1].clone());
    }
    let mut contexts: Vec<MCtx> = vec![MCtx::new(), base.clone()];
    let nf = uni.fields.len();
    let alts: Vec<Vec<Option<V>>> = uni.fields.iter().map(|(_, t, _)| std::iter::once(None).chain(field_alternatives(t).into_iter().map(Some)).collect()).collect();
    for i in 0..nf {
        for a in &alts[i] {
            let mut m = base.clone();
            match a {
                Some(v) => m.insert(uni.fields[i].0.clone(), v.clone()),
                None => m.remove(&uni.fields[i].0),
            };
            contexts.push(m.clone());
            let pair_fields: Vec<usize> = if tier == Tier::Thorough { (i + 1..nf).collect() } else { (i + 1..nf).filter(|j| (i + j) % 3 == 0).collect() };
            for j in pair_fields {
                for b in &alts[j] {
                    let mut m2 = m.clone();
                    match b {
                        Some(v) => m2.insert(uni.fields[j].0.clone(), v.clone()),
                        None => m2.remove(&uni.fields[j].0),
                    };
                    contexts.push(m2);
                }
            }
        }
    }
    // only one field present
    for i in 0..nf {
        for a in alts[i].iter().flatten() {
            let mut m = MCtx::new();
            m.insert(uni.fields[i].0.clone(), a.clone());
            contexts.push(m);
        }
    }
    contexts.sort();
    contexts.dedup();
    run.set("contexts", json!(contexts.len()));
    let lstates = list_states();

    // the same contexts on the scheme with lists and on a twin scheme without lists (there the
    // value-tree feeds can be followed to the end, see known finding on `$lists` through a Value)
    let nolists_uni = {
        let mut u = uni.clone();
        u.lists.clear();
        u
    };
    let nolists_scheme = nolists_uni.build();
    let nolists_filters: Vec<(crate::ast::Expr, Filter)> = filters
        .iter()
        .filter(|(e, _)| crate::sem::filter_ok(&nolists_uni, e).is_ok())
        .map(|(e, _)| (e.clone(), nolists_scheme.parse(&crate::ast::render(e)).expect("parses").compile()))
        .collect();
    let nolists_states = vec![MLists::new()];
    let variants: Vec<(&str, &Uni, &Scheme, &Vec<(crate::ast::Expr, Filter)>, &Vec<MLists>)> = vec![
        ("lists", &uni, &scheme, &filters, &lstates),
        ("nolists", &nolists_uni, &nolists_scheme, &nolists_filters, &nolists_states),
    ];
    let canonical_layout = std::sync::atomic::AtomicU64::new(0);
    let agrees_with_reference = std::sync::atomic::AtomicU64::new(0);
    for (u_tag, uni, scheme, filters, lstates) in variants {
    let (uni, scheme) = (uni.clone(), scheme.clone());
    par_for(contexts.len(), ncpu(), |ci| {
        let m = &contexts[ci];
        for (li, lists) in lstates.iter().enumerate() {
            if li == 1 && ci % 4 != 0 {
                continue;
            }
            let r = guarded(|| {
                let mut problems: Vec<String> = Vec::new();
                let mut ctx = real_ctx(&scheme, m);
                install_sets(&scheme, &mut ctx, &uni, lists);
                let text = serde_json::to_string(&ctx).map_err(|e| e.to_string()).unwrap_or_else(|e| format!("<serialize error {e}>"));
                // the statement does not fix the document's layout: it must be JSON and, read with the
                // documented encodings, denote exactly this context (values and matcher state)
                match parse_j(&text).map(|j| denote_ctx(&uni, &j)) {
                    Some(Ok((dm, dl))) => {
                        let norm = |l: &MLists| -> MLists { l.iter().filter(|(_, s)| !s.is_empty()).map(|(k, v)| (*k, v.clone())).collect() };
                        if dm != *m || norm(&dl) != norm(lists) {
                            problems.push(format!("serialisation does not denote the context: {text}"));
                        }
                    }
                    Some(Err(why)) => problems.push(format!("serialisation cannot be read back ({why}): {text}")),
                    None => problems.push(format!("serialisation is not valid JSON: {text}")),
                }
                if text == expected_doc(&uni, m, lists).print() {
                    canonical_layout.fetch_add(1, std::sync::atomic::Ordering::Relaxed);
                }
                // value-tree and C API serialisations agree with the text
                match serde_json::to_value(&ctx) {
                    Ok(v) => {
                        if serde_json::from_str::<Value>(&text).ok() != Some(v) {
                            problems.push("to_value differs from the text serialisation".into());
                        }
                    }
                    Err(e) => problems.push(format!("to_value failed: {e}")),
                }
                let mut env = Env::new(&uni, m);
                env.lists = Some(lists);
                let answers: Vec<bool> = filters.iter().map(|(e, _)| Env { uni: &uni, ctx: m, lists: Some(lists), log: None, qlog: None, memo: false, eager: false }.eval_filter(e)).collect();
                let _ = env;
                // What a filter *should* answer is judged by C01-C03; here the original context's own
                // answers are the yardstick for the round-tripped ones (agreement with the reference
                // semantics is only counted).
                let reference_answers = answers;
                let answers: Vec<Result<bool, wirefilter::SchemeMismatchError>> = filters.iter().map(|(_, f)| f.execute(&ctx)).collect();
                if answers.iter().zip(&reference_answers).all(|(a, r)| *a == Ok(*r)) {
                    agrees_with_reference.fetch_add(1, std::sync::atomic::Ordering::Relaxed);
                }
                for feed in FEEDS {
                    match guarded(|| feed_ctx(&scheme, &text, feed)) {
                        Err(p) => problems.push(format!("{feed:?}: deserialising the context's own JSON panicked: {p}")),
                        Ok(Err(e)) => problems.push(format!("{feed:?}: the context's own JSON was rejected: {e}")),
                        Ok(Ok(ctx2)) => {
                            if ctx2 != ctx {
                                problems.push(format!("{feed:?}: round trip gives a different context"));
                            }
                            let text2 = serde_json::to_string(&ctx2).unwrap_or_default();
                            if text2 != text {
                                problems.push(format!("{feed:?}: re-serialisation differs: {text2}"));
                            }
                            let (m2, p2) = read_back(&uni, &scheme, &ctx2);
                            problems.extend(p2);
                            if m2 != *m {
                                problems.push(format!("{feed:?}: values read back differ from the model"));
                            }
                            for (k, (e, f)) in filters.iter().enumerate() {
                                if f.execute(&ctx2) != answers[k] {
                                    problems.push(format!("{feed:?}: filter {} evaluates differently after the round trip", crate::ast::render(e)));
                                    break;
                                }
                            }
                        }
                    }
                }
                problems
            });
            run.eval((FEEDS.len() * (1 + filters.len())) as u64);
            run.count("round_trips", FEEDS.len() as u64);
            let problems = match r {
                Ok(p) => p,
                Err(p) => vec![format!("panicked: {p}")],
            };
            for p in problems {
                run.violation(
                    format!("{ID}:roundtrip:{}:{}", u_tag, problem_class(&p)),
                    format!("context {}: {p}", crate::prog::short_ctx(m)),
                    json!({"kind": "c14-roundtrip", "ctx": m, "lists": lists}),
                );
            }
            if ci % 701 == 3 && li == 0 {
                run.sample(6, || json!({"context_json": expected_doc(&uni, m, lists).print()}));
            }
        }
    });

    }
    run.set("serialisations_in_the_reference_layout", json!(canonical_layout.load(std::sync::atomic::Ordering::Relaxed)));
    run.set("contexts_whose_filter_answers_agree_with_the_reference_semantics", json!(agrees_with_reference.load(std::sync::atomic::Ordering::Relaxed)));

    // ---- bad JSON: complete single-mutation neighbourhood of a few documents' trees --------------------------
    let mut seeds_docs: Vec<(MCtx, MLists)> = Vec::new();
    {
        let mut small = MCtx::new();
        for n in ["i", "s", "ip", "t", "xi", "ms", "mxi", "xxb", "xmi"] {
            let t = &uni.field(n).unwrap().1;
            small.insert(n.to_string(), field_alternatives(t)[2.min(field_alternatives(t).len() - 1)].clone());
        }
        seeds_docs.push((small.clone(), lstates[1].clone()));
        let mut nonutf = MCtx::new();
        nonutf.insert("s".into(), V::Bytes(vec![0xff, 1]));
        nonutf.insert("ms".into(), V::map(Ty::Bytes, vec![(b"\xff", V::Bytes(vec![0xfe])), (b"k", V::Bytes(b"v".to_vec()))]));
        nonutf.insert("mmb".into(), V::map(Ty::map(Ty::Bool), vec![(b"a", V::map(Ty::Bool, vec![(b"\xfd", V::Bool(true))]))]));
        seeds_docs.push((nonutf, MLists::new()));
        seeds_docs.push((base.clone(), MLists::new()));
    }
    let replacements: Vec<J> = vec![
        J::Null,
        J::Bool(true),
        J::Num("0".into()),
        J::Num("-1".into()),
        J::Num("1.5".into()),
        J::Num("256".into()),
        J::Num("9223372036854775808".into()),
        J::Str("x".into()),
        J::Str("1.2.3.4".into()),
        J::Arr(vec![]),
        J::Obj(vec![]),
        J::Arr(vec![J::Num("1".into())]),
        J::Arr(vec![J::Arr(vec![J::Str("k".into()), J::Num("1".into())])]),
        J::Obj(vec![("k".into(), J::Num("1".into()))]),
        J::Arr(vec![J::Str("a".into()), J::Str("b".into()), J::Str("c".into())]),
    ];
    for (m, lists) in &seeds_docs {
        let doc = expected_doc(&uni, m, lists);
        let mut mutants: Vec<J> = Vec::new();
        mutate_all(&doc, &replacements, &mut mutants);
        run.count("tree_mutants", mutants.len() as u64);
        par_for(mutants.len(), ncpu(), |k| {
            judge_doc(&run, &uni, &scheme, &mutants[k].print(), Some(&mutants[k]));
        });
        // every strict byte prefix must be refused
        let text = doc.print();
        let cuts: Vec<usize> = (0..text.len()).filter(|i| text.is_char_boundary(*i)).collect();
        par_for(cuts.len(), ncpu(), |k| {
            let prefix = &text[..cuts[k]];
            let mut panicked = false;
            for feed in [Feed::Str, Feed::Reader, Feed::CApi] {
                if feed == Feed::CApi && panicked {
                    continue;
                }
                let got = guarded(|| feed_ctx(&scheme, prefix, feed).map(|c| read_back(&uni, &scheme, &c).1));
                panicked |= got.is_err();
                run.eval(1);
                run.count("truncations", 1);
                match got {
                    Err(p) => run.violation(format!("{ID}:truncation-panic:{feed:?}"), format!("{feed:?}: truncated document {prefix:?} panicked: {p}"), json!({"kind": "c14-doc", "doc": prefix})),
                    Ok(Ok(_)) => run.violation(format!("{ID}:truncation-accepted:{feed:?}:{}", cuts[k]), format!("{feed:?}: truncated document accepted: {prefix:?}"), json!({"kind": "c14-doc", "doc": prefix})),
                    Ok(Err(_)) => {}
                }
            }
        });
    }
    // $lists entries with unknown / over-deep type descriptors, wrong order, wrong shapes
    {
        let mut docs: Vec<String> = Vec::new();
        for n in 0..=130usize {
            for map_innermost in [false, true] {
                let mut t = String::new();
                for i in 0..n {
                    t.push_str(if map_innermost && i == n - 1 { "{\"Map\":" } else { "{\"Array\":" });
                }
                t.push_str("\"Int\"");
                t.push_str(&"}".repeat(n));
                docs.push(format!("{{\"$lists\":[{{\"type\":{t},\"data\":{{\"sets\":{{}}}}}}]}}"));
                docs.push(format!("{{\"i\":1,\"$lists\":[{{\"type\":{t},\"data\":{{}}}}],\"s\":\"a\"}}"));
            }
        }
        for d in [
            "{\"$lists\":[{\"data\":{\"sets\":{}},\"type\":\"Int\"}]}",
            "{\"$lists\":[{\"type\":\"Int\"}]}",
            "{\"$lists\":[{\"type\":\"Int\",\"data\":{\"sets\":{}},\"extra\":1}]}",
            "{\"$lists\":[{\"type\":\"Bool\",\"data\":{}}]}",
            "{\"$lists\":{\"type\":\"Int\",\"data\":{}}}",
            "{\"$lists\":[[\"Int\",{}]]}",
            "{\"$lists\":[{\"type\":\"Int\",\"data\":7}]}",
            "{\"$lists\":[{\"type\":\"Int\",\"data\":{\"sets\":{\"a\":[{\"Bytes\":\"x\"}]}}}]}",
            "{\"$lists\":null}",
            "{\"$lists\":[]}",
            "{\"$lists\":[{\"type\":\"Int\",\"data\":{\"sets\":{}}},{\"type\":\"Int\",\"data\":{\"sets\":{\"z\":[]}}}]}",
        ] {
            docs.push(d.to_string());
        }
        run.count("list_section_documents", docs.len() as u64);
        par_for(docs.len(), ncpu(), |k| {
            judge_doc(&run, &uni, &scheme, &docs[k], None);
        });
    }

    run.finish(
        (contexts.len() as u64).max(2),
        "every context with <=2 fields deviating from a base (absent / shape pools / extremes / non-UTF-8 bytes and keys) and single-field contexts, with empty and populated list matchers, serialised (= reference document) and fed back through six entry points (str, slice, reader, owned Value, &Value, C API): equal context, identical re-serialisation, values read back, every filter of a pool evaluates identically; bad JSON: complete single-mutation neighbourhood of three documents' trees judged by the reference reading, every byte-prefix truncation, list sections with type descriptors of 0..130 layers; distinct_nontrivial = distinct contexts",
        true,
        &[("round_trips", 1000), ("tree_mutants", 500), ("truncations", 300), ("rejected_as_required", 500)],
    )
}

/// Stable class of a round-trip problem (feed + what went wrong, without context-specific data).
fn problem_class(p: &str) -> String {
    let (feed, rest) = p.split_once(": ").unwrap_or(("", p));
    let rest = rest.split(" at line ").next().unwrap_or(rest);
    let rest = if let Some(i) = rest.find("differs:") { &rest[..i + 7] } else { rest };
    let rest = if let Some(i) = rest.find("filter ") { &rest[..i + 6] } else { rest };
    format!("{feed}:{rest}")
}

/// All single mutations of a JSON tree.
fn mutate_all(doc: &J, repl: &[J], out: &mut Vec<J>) {
    fn rec(root: &J, path: &mut Vec<usize>, node: &J, repl: &[J], out: &mut Vec<J>) {
        // replace this node
        for r in repl {
            if r != node {
                out.push(replace_at(root, path, &|_| Some(r.clone())));
            }
        }
        // wrap
        out.push(replace_at(root, path, &|n| Some(J::Arr(vec![n.clone()]))));
        // unwrap
        match node {
            J::Arr(v) if v.len() == 1 => out.push(replace_at(root, path, &|_| Some(v[0].clone()))),
            J::Obj(v) if v.len() == 1 => out.push(replace_at(root, path, &|_| Some(v[0].1.clone()))),
            _ => {}
        }
        // delete (only meaningful below a container)
        if !path.is_empty() {
            out.push(replace_at(root, path, &|_| None));
        }
        match node {
            J::Arr(v) => {
                for (i, c) in v.iter().enumerate() {
                    path.push(i);
                    rec(root, path, c, repl, out);
                    path.pop();
                }
                // duplicate the first element
                if let Some(first) = v.first() {
                    let mut w = v.clone();
                    w.push(first.clone());
                    out.push(replace_at(root, path, &|_| Some(J::Arr(w.clone()))));
                }
            }
            J::Obj(v) => {
                for (i, (k, c)) in v.iter().enumerate() {
                    path.push(i);
                    rec(root, path, c, repl, out);
                    path.pop();
                    // rename the key, duplicate the entry, move it first / last
                    for newk in ["zz", "$lists", "type", "", "$", "$nope", "$lists2", "$LISTS"] {
                        if newk != k {
                            let mut w = v.clone();
                            w[i].0 = newk.to_string();
                            out.push(replace_at(root, path, &|_| Some(J::Obj(w.clone()))));
                        }
                    }
                    let mut w = v.clone();
                    w.push((k.clone(), c.clone()));
                    out.push(replace_at(root, path, &|_| Some(J::Obj(w.clone()))));
                    let mut w = v.clone();
                    let e = w.remove(i);
                    w.insert(0, e);
                    out.push(replace_at(root, path, &|_| Some(J::Obj(w.clone()))));
                }
            }
            _ => {}
        }
    }
    rec(doc, &mut Vec::new(), doc, repl, out);
}

fn replace_at(root: &J, path: &[usize], f: &dyn Fn(&J) -> Option<J>) -> J {
    fn go(node: &J, path: &[usize], f: &dyn Fn(&J) -> Option<J>) -> Option<J> {
        match path.split_first() {
            None => f(node),
            Some((i, rest)) => match node {
                J::Arr(v) => {
                    let mut w = Vec::new();
                    for (k, c) in v.iter().enumerate() {
                        if k == *i {
                            if let Some(n) = go(c, rest, f) {
                                w.push(n);
                            }
                        } else {
                            w.push(c.clone());
                        }
                    }
                    Some(J::Arr(w))
                }
                J::Obj(v) => {
                    let mut w = Vec::new();
                    for (k, (key, c)) in v.iter().enumerate() {
                        if k == *i {
                            if let Some(n) = go(c, rest, f) {
                                w.push((key.clone(), n));
                            }
                        } else {
                            w.push((key.clone(), c.clone()));
                        }
                    }
                    Some(J::Obj(w))
                }
                other => Some(other.clone()),
            },
        }
    }
    go(root, path, f).unwrap_or(J::Null)
}

/// Judges one (possibly bad) document through the text feeds.
fn judge_doc(run: &Run, uni: &Uni, scheme: &Scheme, text: &str, tree: Option<&J>) {
    let reference: Option<Result<(MCtx, MLists), String>> = match tree {
        Some(t) => Some(denote_ctx(uni, t)),
        None => parse_j(text).map(|j| denote_ctx(uni, &j)),
    };
    let mut panicked = false;
    for feed in [Feed::Str, Feed::Slice, Feed::Reader, Feed::CApi] {
        // a panic inside an `extern "C"` function aborts the process: once the Rust entry points
        // have panicked on this document (already a violation) the C entry point is not driven
        if feed == Feed::CApi && panicked {
            continue;
        }
        let got = guarded(|| {
            feed_ctx(scheme, text, feed).map(|c| {
                let (m, p) = read_back(uni, scheme, &c);
                (m, p)
            })
        });
        run.eval(1);
        if got.is_err() {
            panicked = true;
        }
        match (&got, &reference) {
            (Err(p), _) => run.violation(
                format!("{ID}:bad-json-panic:{feed:?}:{}", p.chars().take(60).collect::<String>()),
                format!("{feed:?}: document {text:?} panicked: {p}"),
                json!({"kind": "c14-doc", "doc": text}),
            ),
            (Ok(Ok((m, type_problems))), r) => {
                for tp in type_problems {
                    run.violation(
                        format!("{ID}:ill-typed-value-stored:{feed:?}:{tp}"),
                        format!("{feed:?}: after {text:?}: {tp}"),
                        json!({"kind": "c14-doc", "doc": text}),
                    );
                }
                match r {
                    Some(Err(why)) => run.violation(
                        format!("{ID}:bad-json-accepted:{feed:?}:{why}"),
                        format!("{feed:?}: document that must be rejected ({why}) was accepted: {text:?}"),
                        json!({"kind": "c14-doc", "doc": text}),
                    ),
                    Some(Ok((want, _))) => {
                        if m != want {
                            run.violation(
                                format!("{ID}:doc-denotes-differently:{feed:?}"),
                                format!("{feed:?}: {text:?} stored {:?}, reference reading {:?}", crate::prog::short_ctx(m), crate::prog::short_ctx(want)),
                                json!({"kind": "c14-doc", "doc": text}),
                            );
                        }
                        run.count("accepted_as_allowed", 1);
                    }
                    None => {}
                }
            }
            (Ok(Err(_)), Some(Err(_))) => run.count("rejected_as_required", 1),
            (Ok(Err(_)), Some(Ok(_))) => run.count("reference_ok_engine_rejects_not_judged", 1),
            (Ok(Err(_)), None) => run.count("rejected_as_required", 1),
        }
    }
}

pub fn replay(case: &Value) -> Result<u64, String> {
    let (_, uni) = unis::containers(true);
    let scheme = uni.build();
    let run = Run::new("replay", "exploration", Tier::Quick, 0);
    match case["kind"].as_str().unwrap_or("") {
        "c14-doc" => {
            let text = case["doc"].as_str().ok_or("doc")?;
            judge_doc(&run, &uni, &scheme, text, None);
            // truncations are judged by "must be rejected": re-check that too
            if serde_json::from_str::<Value>(text).is_err() {
                for feed in [Feed::Str, Feed::Reader, Feed::CApi] {
                    if let Ok(Ok(_)) = guarded(|| feed_ctx(&scheme, text, feed).map(|_| ())) {
                        return Ok(1);
                    }
                }
            }
            Ok(run.violations_seen())
        }
        _ => {
            let m: MCtx = serde_json::from_value(case["ctx"].clone()).map_err(|e| e.to_string())?;
            let lists: MLists = serde_json::from_value(case["lists"].clone()).map_err(|e| e.to_string())?;
            let mut ctx = real_ctx(&scheme, &m);
            install_sets(&scheme, &mut ctx, &uni, &lists);
            let text = serde_json::to_string(&ctx).map_err(|e| e.to_string())?;
            let mut bad = 0;
            if text != expected_doc(&uni, &m, &lists).print() {
                bad += 1;
            }
            for feed in FEEDS {
                match guarded(|| feed_ctx(&scheme, &text, feed)) {
                    Ok(Ok(c2)) if c2 == ctx => {}
                    other => {
                        eprintln!("{feed:?}: {:?}", other.map(|r| r.map(|_| "different context")));
                        bad += 1;
                    }
                }
            }
            Ok(bad)
        }
    }
}
