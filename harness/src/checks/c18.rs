//! C18 — compiled filters are deterministic and safe to execute concurrently
//! (shape S: preemption-bounded exhaustive exploration of schedules at hook granularity).

use crate::ev::{Run, Tier, guarded};
use crate::sched::{self, Execution, ExploreStats};
use crate::uni::{ListKind, MCtx, MLists, RACY_COUNTER, Uni, install_sets, real_ctx};
use crate::unis;
use crate::val::{Ty, V};
use serde_json::json;
use std::collections::BTreeSet;
use std::sync::Arc;
use wirefilter::{ExecutionContext, Filter, FilterValue, Scheme};

pub const ID: &str = "C18";

const FILTERS: [&str; 14] = [
    "s matches \"^a.*b$\"",
    "s wildcard \"a*b\"",
    "s contains \"ab\"",
    "i in $a",
    "any(cat2(xs[*], idb(s))[*] == \"x+ab\")",
    "any(cat2(xs[*], s)[*] == \"x+ab\")",
    "len(up(idb(s))) == 2 and not s contains \"abababababababababab\"",
    "any(xs[*] matches \"b$\") or s strict wildcard \"B*\"",
    "any(xs[*] in $b) xor ip in {::1 10.0.0.0/8}",
    // combinators whose deciding operand differs from context to context (9, 10, 11)
    "i == 1 and s contains \"ab\"",
    "i == 2 or s contains \"Ba\" or ip == ::1",
    "i == 1 and not ip == 1.2.3.4 and s contains \"ab\" and any(xs[*] == \"ab\")",
    // a non-mapped argument that is a call over a literal *and* a field: it looks constant to a
    // careless analysis and is different on every context (12, 13)
    "any(cat2(xs[*], cat2(s, \"-\"))[*] == \"ba+ba+-\")",
    "any(cat2(xs[*], opt(s, 3))[*] == \"ab+ab|3|d\") or any(concat(xs[*], concat(\"-\", s))[*] == \"ba-ba\")",
];
/// filters of the list above whose operands decide differently on different contexts
const COMBINATORS: [usize; 3] = [9, 10, 11];
const VALUES: [&str; 2] = ["cat2(xs[*], nie(s))", "pick(s, i in $a)"];

struct World {
    uni: Uni,
    scheme: Scheme,
    filters: Vec<Arc<Filter>>,
    values: Vec<Arc<FilterValue>>,
    ctxs: Vec<Arc<ExecutionContext<'static>>>,
    /// sequential baseline: filter k on context j
    base_f: Vec<Vec<bool>>,
    base_v: Vec<Vec<Result<V, Ty>>>,
}

fn sb(s: &[u8]) -> V {
    V::Bytes(s.to_vec())
}

fn universe() -> Uni {
    let (_, mut u) = unis::containers(true);
    u.funcs.push(crate::uni::fn_spec("racy"));
    u
}

fn contexts() -> (Vec<MCtx>, MLists) {
    let mut c0 = MCtx::new();
    c0.insert("s".into(), sb(b"ab"));
    c0.insert("i".into(), V::Int(1));
    c0.insert("xs".into(), V::arr(Ty::Bytes, vec![sb(b"x"), sb(b"ab")]));
    c0.insert("ip".into(), V::Ip("::1".parse().unwrap()));
    let mut c1 = MCtx::new();
    c1.insert("s".into(), sb(b"ba"));
    c1.insert("i".into(), V::Int(2));
    c1.insert("xs".into(), V::arr(Ty::Bytes, vec![sb(b"ba")]));
    c1.insert("ip".into(), V::Ip("1.2.3.4".parse().unwrap()));
    let mut c2 = MCtx::new();
    c2.insert("s".into(), sb(b"Bab"));
    c2.insert("xs".into(), V::arr(Ty::Bytes, vec![]));
    let mut lists = MLists::new();
    let mut ints = std::collections::BTreeMap::new();
    ints.insert("a".to_string(), [V::Int(1)].into_iter().collect::<BTreeSet<V>>());
    lists.insert(0, ints);
    let mut bytes = std::collections::BTreeMap::new();
    bytes.insert("b".to_string(), [sb(b"ab")].into_iter().collect::<BTreeSet<V>>());
    lists.insert(1, bytes);
    // a context in which the non-mapped arguments are absent
    let mut c3 = MCtx::new();
    c3.insert("xs".into(), V::arr(Ty::Bytes, vec![sb(b"x"), sb(b"ab")]));
    c3.insert("i".into(), V::Int(1));
    (vec![c0, c1, c2, c3], lists)
}

fn value_of(fv: &FilterValue, ctx: &ExecutionContext<'_>) -> Result<V, Ty> {
    match fv.execute(ctx).expect("same scheme") {
        Ok(v) => Ok(V::from_engine(&v)),
        Err(t) => Err(Ty::from_engine(t)),
    }
}

impl World {
    fn new() -> World {
        let uni = universe();
        let scheme = uni.build();
        assert!(uni.lists[0].1 == ListKind::Set);
        let (mctxs, lists) = contexts();
        let ctxs: Vec<Arc<ExecutionContext<'static>>> = mctxs
            .iter()
            .map(|m| {
                let mut c = real_ctx(&scheme, m);
                install_sets(&scheme, &mut c, &uni, &lists);
                Arc::new(c)
            })
            .collect();
        let filters: Vec<Arc<Filter>> = FILTERS.iter().map(|s| Arc::new(scheme.parse(s).expect("filter parses").compile())).collect();
        let values: Vec<Arc<FilterValue>> = VALUES.iter().map(|s| Arc::new(scheme.parse_value(s).expect("value parses").compile())).collect();
        let base_f = filters.iter().map(|f| ctxs.iter().map(|c| f.execute(c).expect("same scheme")).collect()).collect();
        let base_v = values.iter().map(|f| ctxs.iter().map(|c| value_of(f, c)).collect()).collect();
        World { uni, scheme, filters, values, ctxs, base_f, base_v }
    }
}

#[derive(Clone, Debug, PartialEq, Eq, serde::Serialize, serde::Deserialize)]
pub enum Act {
    /// execute the shared compiled filter k on context j
    Exec(usize, usize),
    /// execute the shared compiled value expression k on context j
    ExecValue(usize, usize),
    /// parse + compile filter k on this thread, then execute it on context j
    CompileExec(usize, usize),
    /// the canary: a harness function with a deliberate race
    Canary,
}

#[derive(Clone, Debug, PartialEq, Eq, serde::Serialize, serde::Deserialize)]
pub struct Scenario {
    name: String,
    warmup: Vec<Act>,
    threads: Vec<Vec<Act>>,
}

#[derive(Clone, Debug, PartialEq, Eq, PartialOrd, Ord)]
enum Obs {
    B(bool),
    V(Result<V, Ty>),
}

fn perform(w: &World, act: &Act) -> Obs {
    match act {
        Act::Exec(k, j) => Obs::B(w.filters[*k].execute(&w.ctxs[*j]).expect("same scheme")),
        Act::ExecValue(k, j) => Obs::V(value_of(&w.values[*k], &w.ctxs[*j])),
        Act::CompileExec(k, j) => {
            let f = w.scheme.parse(FILTERS[*k]).expect("parses").compile();
            sched::yield_now("between-compile-and-execute");
            Obs::B(f.execute(&w.ctxs[*j]).expect("same scheme"))
        }
        Act::Canary => {
            let f = w.scheme.parse("racy(s) == 1").expect("parses").compile();
            Obs::B(f.execute(&w.ctxs[0]).expect("same scheme"))
        }
    }
}

fn expected(w: &World, act: &Act) -> Option<Obs> {
    match act {
        Act::Exec(k, j) | Act::CompileExec(k, j) => Some(Obs::B(w.base_f[*k][*j])),
        Act::ExecValue(k, j) => Some(Obs::V(w.base_v[*k][*j].clone())),
        Act::Canary => None,
    }
}

fn scenarios(tier: Tier) -> Vec<Scenario> {
    let mut v = Vec::new();
    let nf = FILTERS.len();
    for k in 0..nf {
        v.push(Scenario { name: format!("same filter, same context after warm-up on another [{k}]"), warmup: vec![Act::Exec(k, 0)], threads: vec![vec![Act::Exec(k, 1)], vec![Act::Exec(k, 1)]] });
        v.push(Scenario { name: format!("same filter, different contexts after warm-up [{k}]"), warmup: vec![Act::Exec(k, 0)], threads: vec![vec![Act::Exec(k, 1)], vec![Act::Exec(k, 0)]] });
        v.push(Scenario { name: format!("same filter, crossing context order [{k}]"), warmup: vec![], threads: vec![vec![Act::Exec(k, 0), Act::Exec(k, 1)], vec![Act::Exec(k, 1), Act::Exec(k, 0)]] });
        v.push(Scenario { name: format!("same filter, contexts with present / absent fields [{k}]"), warmup: vec![Act::Exec(k, 0)], threads: vec![vec![Act::Exec(k, 3), Act::Exec(k, 0)], vec![Act::Exec(k, 0), Act::Exec(k, 3)]] });
        v.push(Scenario { name: format!("compile and execute on both threads [{k}]"), warmup: vec![], threads: vec![vec![Act::CompileExec(k, 0)], vec![Act::CompileExec(k, 1)]] });
        v.push(Scenario { name: format!("shared filter vs private recompilation [{k}]"), warmup: vec![Act::Exec(k, 1)], threads: vec![vec![Act::Exec(k, 0)], vec![Act::CompileExec(k, 1), Act::Exec(k, 2)]] });
    }
    for k in 0..nf {
        for l in 0..nf {
            if k < l && (tier == Tier::Thorough || (k + l) % 3 == 0) {
                v.push(Scenario { name: format!("different filters on one shared context [{k},{l}]"), warmup: vec![], threads: vec![vec![Act::Exec(k, 0), Act::Exec(l, 1)], vec![Act::Exec(l, 0), Act::Exec(k, 1)]] });
            }
        }
    }
    // every (warm-up context, context of thread 0, context of thread 1) for the combinator filters:
    // a hint left behind by one execution must not change what a concurrent one returns
    let nc = contexts().0.len();
    for &k in &COMBINATORS {
        for w in 0..nc {
            for a in 0..nc {
                for b in a..nc {
                    v.push(Scenario { name: format!("combinator filter, warm-up on context {w}, threads on {a} and {b} [{k}]"), warmup: vec![Act::Exec(k, w)], threads: vec![vec![Act::Exec(k, a)], vec![Act::Exec(k, b)]] });
                }
            }
        }
    }
    for k in 0..VALUES.len() {
        v.push(Scenario { name: format!("value expression on two contexts [{k}]"), warmup: vec![Act::ExecValue(k, 0)], threads: vec![vec![Act::ExecValue(k, 1), Act::ExecValue(k, 0)], vec![Act::ExecValue(k, 1)]] });
    }
    if tier == Tier::Thorough {
        for k in 0..nf {
            v.push(Scenario { name: format!("three threads, one filter [{k}]"), warmup: vec![Act::Exec(k, 0)], threads: vec![vec![Act::Exec(k, 1)], vec![Act::Exec(k, 0)], vec![Act::Exec(k, 1), Act::Exec(k, 2)]] });
        }
    }
    v
}

fn explore_scenario(run: &Run, w: &Arc<World>, sc: &Scenario, bound: usize, cap: u64) -> (ExploreStats, usize) {
    let mut outcomes: BTreeSet<Vec<Vec<Obs>>> = BTreeSet::new();
    let scn = sc.clone();
    let mk = move || -> Vec<Box<dyn FnOnce() -> Vec<Obs> + Send>> {
        RACY_COUNTER.store(0, std::sync::atomic::Ordering::SeqCst);
        // every execution starts from freshly compiled filters and fresh contexts, so that state
        // retained inside a compiled filter cannot leak from one explored schedule into the next
        let wc = Arc::new(World::new());
        // warm-up runs sequentially on the driver thread before the workers start
        for a in &scn.warmup {
            let _ = perform(&wc, a);
        }
        scn.threads
            .iter()
            .map(|acts| {
                let (w2, acts) = (wc.clone(), acts.clone());
                Box::new(move || acts.iter().map(|a| perform(&w2, a)).collect::<Vec<Obs>>()) as Box<dyn FnOnce() -> Vec<Obs> + Send>
            })
            .collect()
    };
    let mut check = |x: &Execution<Vec<Obs>>, choices: &[usize]| -> bool {
        let mut ok = true;
        for (t, acts) in sc.threads.iter().enumerate() {
            for (a, act) in acts.iter().enumerate() {
                if let Some(want) = expected(w, act) {
                    if x.results[t][a] != want {
                        ok = false;
                        run.violation(
                            format!("{ID}:wrong-result:{}:{act:?}", sc.name),
                            format!("scenario `{}`: thread {t} {act:?} returned {:?}, sequential baseline {:?}; schedule {:?}", sc.name, x.results[t][a], want, sched::format_schedule(&x.trace)),
                            json!({"kind": "c18-schedule", "scenario": sc, "schedule": choices}),
                        );
                    }
                }
            }
        }
        outcomes.insert(x.results.clone());
        ok
    };
    let mut on_error = |e: String, choices: &[usize]| {
        run.violation(
            format!("{ID}:execution-error:{}:{}", sc.name, e.chars().take(80).collect::<String>()),
            format!("scenario `{}`: {e}", sc.name),
            json!({"kind": "c18-schedule", "scenario": sc, "schedule": choices}),
        );
    };
    let stats = sched::explore(&mk, bound, cap, &mut check, &mut on_error);
    (stats, outcomes.len())
}

pub fn run(tier: Tier, seed: u64) -> i32 {
    let run = Run::new(ID, "model_checking", tier, seed);
    run.assume("interleavings are explored at the granularity of the scheduling points (engine hooks: filter.execute, filter_value.execute, ctx.get_field_value, regex.is_match, in_list.match_value, contains.select_searcher; every harness function / matcher call); no preemption inside dependency code between points; weak-memory effects are invisible");
    let w = Arc::new(World::new());
    let bound = tier.pick(2usize, 3usize);
    let cap = tier.pick(4_000u64, 12_000u64);
    let mut total = ExploreStats::default();
    let mut scen_count = 0u64;
    let mut multi_outcome = 0u64;

    // determinism of the explorer: the same schedule twice gives the same point trace
    {
        let sc = &scenarios(tier)[2];
        let scn = sc.clone();
        let mk = move || -> Vec<Box<dyn FnOnce() -> Vec<Obs> + Send>> {
            let wc = Arc::new(World::new());
            scn.threads
                .iter()
                .map(|acts| {
                    let (w2, acts) = (wc.clone(), acts.clone());
                    Box::new(move || acts.iter().map(|a| perform(&w2, a)).collect::<Vec<Obs>>()) as Box<dyn FnOnce() -> Vec<Obs> + Send>
                })
                .collect()
        };
        let a = sched::run_once(mk(), &[1, 0, 1, 1]).map(|x| (x.trace, x.results));
        let b = sched::run_once(mk(), &[1, 0, 1, 1]).map(|x| (x.trace, x.results));
        if a.is_err() || a != b {
            eprintln!("MACHINERY-FAILURE: replaying one schedule twice gave different traces: {a:?} vs {b:?}");
            return 2;
        }
        run.count("replay_determinism_checked", 1);
    }

    // repeated executions and recompilations agree, whatever was executed in between (single thread)
    {
        let w1 = World::new();
        let w2 = World::new();
        let nf = w1.filters.len();
        let nc = w1.ctxs.len();
        // forward and reverse sweeps over (filter, context) on one world, against a second compilation
        let mut disagreements = Vec::new();
        for round in 0..3 {
            let order: Vec<(usize, usize)> = match round {
                0 => (0..nf).flat_map(|k| (0..nc).map(move |j| (k, j))).collect(),
                1 => (0..nf).rev().flat_map(|k| (0..nc).rev().map(move |j| (k, j))).collect(),
                _ => (0..nc).flat_map(|j| (0..nf).map(move |k| (k, j))).collect(),
            };
            for (k, j) in order {
                let a = guarded(|| w1.filters[k].execute(&w1.ctxs[j]).expect("same scheme"));
                let b = guarded(|| w2.filters[k].execute(&w2.ctxs[j]).expect("same scheme"));
                run.eval(2);
                run.count("repeated_executions", 2);
                if a != Ok(w.base_f[k][j]) || b != Ok(w.base_f[k][j]) {
                    disagreements.push(format!("filter {:?} on context {j}: first execution {}, repeated {a:?}, recompiled {b:?}", FILTERS[k], w.base_f[k][j]));
                }
            }
        }
        for k in 0..w1.values.len() {
            for j in (0..nc).rev() {
                let a = guarded(|| value_of(&w1.values[k], &w1.ctxs[j]));
                if a != Ok(w.base_v[k][j].clone()) {
                    disagreements.push(format!("value {:?} on context {j}: repeated execution differs", VALUES[k]));
                }
            }
        }
        // one context object changed in place between executions (field values replaced, named
        // sets of the list matchers replaced, cleared and refilled): a long-lived compiled filter
        // and a fresh compilation of the same source agree on every state of that object
        {
            let (mctxs, lists0) = contexts();
            let mut lists1 = lists0.clone();
            for sets in lists1.values_mut() {
                for (_, set) in sets.iter_mut() {
                    let moved: BTreeSet<V> = set
                        .iter()
                        .map(|v| match v {
                            V::Int(i) => V::Int(i + 1),
                            V::Bytes(b) => V::Bytes([b.as_slice(), b"x"].concat()),
                            other => other.clone(),
                        })
                        .collect();
                    *set = moved;
                }
            }
            let mut m = real_ctx(&w1.scheme, &mctxs[0]);
            install_sets(&w1.scheme, &mut m, &w1.uni, &lists0);
            // (values of context j or none, lists variant or none, clear first?)
            let steps: Vec<(Option<usize>, Option<&MLists>, bool)> = vec![
                (None, None, false),
                (None, Some(&lists1), false),
                (None, Some(&lists0), false),
                (Some(1), None, false),
                (Some(1), Some(&lists1), false),
                (Some(3), Some(&lists0), true),
                (Some(0), Some(&lists1), true),
                (Some(0), Some(&lists0), false),
                (Some(2), Some(&lists0), true),
                (Some(0), Some(&lists0), true),
            ];
            for (si, (vals, lists, clear)) in steps.iter().enumerate() {
                if *clear {
                    m.clear();
                }
                if let Some(j) = vals {
                    for (name, v) in &mctxs[*j] {
                        let f = w1.scheme.get_field(name).expect("field");
                        m.set_field_value(f, v.to_engine()).expect("well typed");
                    }
                }
                if let Some(l) = lists {
                    install_sets(&w1.scheme, &mut m, &w1.uni, l);
                }
                for k in 0..nf {
                    let a = guarded(|| w1.filters[k].execute(&m).expect("same scheme"));
                    let b = guarded(|| w1.scheme.parse(FILTERS[k]).expect("parses").compile().execute(&m).expect("same scheme"));
                    run.eval(2);
                    run.count("executions_on_a_context_changed_in_place", 2);
                    if a != b {
                        disagreements.push(format!("filter {:?} after in-place change {si} of the context: long-lived filter {a:?}, fresh compilation {b:?}", FILTERS[k]));
                    }
                }
            }
        }
        // compilations in the presence of other live filters: what a filter answers must not depend
        // on which other expressions - same pattern under another operator, same text on another
        // scheme - are alive when it is compiled (process-wide interning, shared compiled parts)
        {
            let long_a = "*.Static-Assets.Example-Content-Delivery.Net";
            let long_b = "Img7.Static-Assets.Example-Content-Delivery.Net-And-Some-More-Bytes";
            let twins: Vec<String> = vec![
                format!("s wildcard \"{long_a}\""),
                format!("s strict wildcard \"{long_a}\""),
                format!("s wildcard r\"{long_a}\""),
                format!("s matches \"{long_b}\""),
                format!("s contains \"{long_b}\""),
                format!("s == \"{long_b}\""),
                format!("s in {{\"{long_b}\" \"{long_a}\"}}"),
                format!("s strict wildcard \"{long_b}\""),
                format!("s wildcard \"{long_b}\""),
                format!("any(xs[*] wildcard \"{long_a}\")"),
                format!("any(xs[*] strict wildcard \"{long_a}\")"),
            ];
            let values: Vec<Vec<u8>> = vec![
                b"img7.static-assets.example-content-delivery.net".to_vec(),
                b"Img7.Static-Assets.Example-Content-Delivery.Net".to_vec(),
                long_b.as_bytes().to_vec(),
                long_b.to_ascii_lowercase().into_bytes(),
                b"x".to_vec(),
            ];
            let tctxs: Vec<ExecutionContext<'static>> = values
                .iter()
                .map(|v| {
                    let mut m = MCtx::new();
                    m.insert("s".into(), V::Bytes(v.clone()));
                    m.insert("xs".into(), V::arr(Ty::Bytes, vec![V::Bytes(v.clone()), sb(b"ab")]));
                    real_ctx(&w1.scheme, &m)
                })
                .collect();
            // a second scheme object with the same shape: expressions on it are "other" expressions too
            let other_scheme = w1.uni.build();
            let alone = |text: &str| -> Vec<bool> {
                let f = w1.scheme.parse(text).expect("twin parses").compile();
                tctxs.iter().map(|c| f.execute(c).expect("same scheme")).collect()
            };
            let baseline: Vec<Vec<bool>> = twins.iter().map(|t| alone(t)).collect();
            for (a, ta) in twins.iter().enumerate() {
                for (b, tb) in twins.iter().enumerate() {
                    if a == b {
                        continue;
                    }
                    for on_other_scheme in [false, true] {
                        // `ta` is parsed (and compiled) first and stays alive while `tb` is compiled and run
                        let sch = if on_other_scheme { &other_scheme } else { &w1.scheme };
                        let ast_a = sch.parse(ta).expect("twin parses");
                        let keep_ast = sch.parse(ta).expect("twin parses");
                        let fa = ast_a.compile();
                        let got = guarded(|| {
                            let fb = w1.scheme.parse(tb).expect("twin parses").compile();
                            tctxs.iter().map(|c| fb.execute(c).expect("same scheme")).collect::<Vec<bool>>()
                        });
                        run.eval(tctxs.len() as u64);
                        run.count("compilations_next_to_a_live_twin", 1);
                        if got != Ok(baseline[b].clone()) {
                            disagreements.push(format!("{tb:?} compiled while {ta:?} (on {} scheme) is alive answers {got:?}, compiled alone {:?}", if on_other_scheme { "another" } else { "the same" }, baseline[b]));
                        }
                        drop(fa);
                        drop(keep_ast);
                    }
                }
            }
        }
        for d in disagreements {
            run.violation(format!("{ID}:repeated-execution:{d}"), format!("repeated / recompiled execution disagrees: {d}"), json!({"kind": "c18-repeat"}));
        }
    }

    // the canary: the explorer must be able to produce more than one outcome
    {
        let canary = Scenario { name: "canary (deliberately racy harness function)".into(), warmup: vec![], threads: vec![vec![Act::Canary], vec![Act::Canary]] };
        let (st, outcomes) = explore_scenario(&run, &w, &canary, bound, cap);
        run.set("canary", json!({"schedules": st.schedules, "distinct_outcomes": outcomes}));
        run.count("canary_distinct_outcomes", outcomes as u64);
    }

    for sc in scenarios(tier) {
        let (st, outcomes) = explore_scenario(&run, &w, &sc, bound, cap);
        scen_count += 1;
        total.schedules += st.schedules;
        total.points_total += st.points_total;
        total.max_points = total.max_points.max(st.max_points);
        total.switches += st.switches;
        total.capped |= st.capped;
        if outcomes > 1 {
            multi_outcome += 1;
        }
        if scen_count % 9 == 1 {
            run.sample(8, || json!({"scenario": sc, "schedules_explored": st.schedules, "points_in_longest_schedule": st.max_points, "distinct_outcome_vectors": outcomes}));
        }
    }
    run.eval(total.schedules);

    // first use of lazily initialised global state raced in a fresh process
    match first_use_worker() {
        Ok(n) => run.count("first_use_schedules", n),
        Err(e) => run.violation(
            format!("{ID}:first-use"),
            format!("first-use race in a fresh process: {e}"),
            json!({"kind": "c18-first-use", "detail": e}),
        ),
    }

    // auxiliary, NOT deciding (sampling): free-running barrier-released threads
    let aux = free_running(&run, &w, tier);
    let aux_first = free_running_first_use(&run, &w, tier);
    run.set("auxiliary_free_running_sampling", json!({"executions": aux, "first_executions_of_fresh_large_filters": aux_first, "note": "sampling; can only add a violation, never certify"}));

    run.set("states", json!(total.points_total));
    run.set("transitions", json!(total.points_total));
    run.set("traces_validated_against_impl", json!(total.schedules));
    run.set("schedules", json!(total.schedules));
    run.set("scenarios", json!(scen_count));
    run.set("bounds", json!({"preemption_bound": bound, "schedule_cap_per_scenario": cap, "cap_hit": total.capped, "threads": tier.pick(2, 3), "max_points_in_a_schedule": total.max_points}));
    run.set("scenarios_with_more_than_one_outcome_vector", json!(multi_outcome));
    run.count("schedules", total.schedules);
    run.finish(
        total.schedules,
        "for every scenario (2-3 threads x 1-2 operations over 12 filters / 2 value expressions / 4 contexts, with sequential warm-ups): every schedule with at most 2 (quick) / 3 (thorough) preemptions at hook granularity, executed to completion on real threads under the cooperative scheduler; every call's result equals the sequential baseline; states/transitions = scheduling points executed, traces = schedules; canary must show > 1 outcome",
        !total.capped,
        &[("schedules", 500), ("canary_distinct_outcomes", 2), ("first_use_schedules", 2)],
    )
}

fn first_use_worker() -> Result<u64, String> {
    let exe = std::env::current_exe().map_err(|e| e.to_string())?;
    let out = std::process::Command::new(exe).args(["worker", "c18first"]).output().map_err(|e| e.to_string())?;
    let stdout = String::from_utf8_lossy(&out.stdout).to_string();
    if !out.status.success() {
        return Err(format!("worker died: {:?}", out.status));
    }
    if let Some(f) = stdout.lines().find_map(|l| l.strip_prefix("FAIL ")) {
        return Err(f.to_string());
    }
    stdout.lines().find_map(|l| l.strip_prefix("OK ")).and_then(|n| n.trim().parse().ok()).ok_or_else(|| format!("worker output not understood: {stdout}"))
}

/// Fresh process: the very first engine actions are raced (parse + compile of `contains`, regex, wildcard).
pub fn worker_first_use() -> i32 {
    crate::ev::quiet_panics();
    let uni = universe();
    let scheme = uni.build();
    let (mctxs, lists) = contexts();
    let ctxs: Vec<Arc<ExecutionContext<'static>>> = mctxs
        .iter()
        .map(|m| {
            let mut c = real_ctx(&scheme, m);
            install_sets(&scheme, &mut c, &uni, &lists);
            Arc::new(c)
        })
        .collect();
    // nothing compiled yet in this process: the workers do the first compilation
    let src = "s contains \"ab\" and s matches \"^a\" and s wildcard \"a*\"";
    let want = [true, false];
    let scheme = Arc::new(scheme);
    let mut schedules = 0u64;
    let mut failure: Option<String> = None;
    let mk = {
        let (scheme, ctxs) = (scheme.clone(), ctxs.clone());
        move || -> Vec<Box<dyn FnOnce() -> bool + Send>> {
            (0..2usize)
                .map(|t| {
                    let (s, c) = (scheme.clone(), ctxs[t].clone());
                    Box::new(move || {
                        let f = s.parse(src).expect("parses").compile();
                        f.execute(&c).expect("same scheme")
                    }) as Box<dyn FnOnce() -> bool + Send>
                })
                .collect()
        }
    };
    let mut check = |x: &Execution<bool>, _: &[usize]| {
        schedules += 1;
        if x.results != want {
            failure = Some(format!("results {:?}, expected {:?}; schedule {:?}", x.results, want, sched::format_schedule(&x.trace)));
        }
        true
    };
    let mut errs: Vec<String> = Vec::new();
    let mut on_error = |e: String, _: &[usize]| errs.push(e);
    sched::explore(&mk, 2, 2000, &mut check, &mut on_error);
    if let Some(f) = failure {
        println!("FAIL {f}");
    } else if let Some(e) = errs.first() {
        println!("FAIL {e}");
    } else {
        println!("OK {schedules}");
    }
    0
}

fn free_running(run: &Run, w: &Arc<World>, tier: Tier) -> u64 {
    let mut n = 0u64;
    for threads in [4usize, 16, 64] {
        for _round in 0..tier.pick(3, 20) {
            let barrier = Arc::new(std::sync::Barrier::new(threads));
            let mut hs = Vec::new();
            for t in 0..threads {
                let (w2, b) = (w.clone(), barrier.clone());
                hs.push(std::thread::spawn(move || {
                    b.wait();
                    let mut bad = Vec::new();
                    for rep in 0..20 {
                        for k in 0..FILTERS.len() {
                            let j = (t + k + rep) % w2.ctxs.len();
                            let got = guarded(|| w2.filters[k].execute(&w2.ctxs[j]).expect("same scheme"));
                            if got != Ok(w2.base_f[k][j]) {
                                bad.push(format!("filter {k} on context {j}: {got:?}, baseline {}", w2.base_f[k][j]));
                            }
                        }
                    }
                    bad
                }));
            }
            for h in hs {
                if let Ok(bad) = h.join() {
                    for b in bad {
                        run.violation(
                            format!("{ID}:free-running:{b}"),
                            format!("free-running threads ({threads}): {b}"),
                            json!({"kind": "c18-free-running", "threads": threads}),
                        );
                    }
                }
                n += (20 * FILTERS.len()) as u64;
            }
        }
    }
    n
}

/// Filters whose compiled form is large (big literal sets, a wide alternation): if any part of the
/// work is put off to the first execution, that first execution takes long enough to be raced.
fn heavy_filters() -> Vec<String> {
    let mut ints: Vec<i64> = (0..4000i64).map(|k| (k * 7919 + 13) % 100_003 - 50_000).collect();
    ints.push(1);
    ints.push(2);
    let int_set = ints.iter().map(|i| i.to_string()).collect::<Vec<_>>().join(" ");
    let mut ips: Vec<String> = (0..2000u32).map(|k| format!("10.{}.{}.{}", (k * 31) % 256, (k * 17) % 256, k % 256)).collect();
    ips.push("::1".into());
    ips.push("1.2.3.4".into());
    let ip_set = ips.join(" ");
    let mut strs: Vec<String> = (0..2000u32).map(|k| format!("\"w{}\"", k * 104_729 % 1_000_003)).collect();
    strs.push("\"ab\"".into());
    strs.push("\"ba\"".into());
    let str_set = strs.join(" ");
    let alternation = (0..400u32).map(|k| format!("x{k}y")).collect::<Vec<_>>().join("|");
    vec![
        format!("i in {{{int_set}}}"),
        format!("ip in {{{ip_set}}}"),
        format!("s in {{{str_set}}}"),
        format!("s matches \"^({alternation}|a.*b)$\""),
        format!("any(xs[*] in {{{str_set}}}) or i in {{{int_set}}}"),
    ]
}

/// First executions of freshly compiled filters, raced by free-running threads released together
/// (sampling: auxiliary to the schedule exploration, which cannot preempt inside code that has no
/// scheduling point).
fn free_running_first_use(run: &Run, w: &Arc<World>, tier: Tier) -> u64 {
    let texts = heavy_filters();
    // sequential baseline from a compilation of its own
    let base: Vec<Vec<bool>> = texts
        .iter()
        .map(|t| {
            let f = w.scheme.parse(t).expect("heavy filter parses").compile();
            w.ctxs.iter().map(|c| f.execute(c).expect("same scheme")).collect()
        })
        .collect();
    let base = Arc::new(base);
    let mut n = 0u64;
    for threads in [2usize, 4, 16] {
        for _round in 0..tier.pick(12, 60) {
            let fresh: Arc<Vec<Filter>> = Arc::new(texts.iter().map(|t| w.scheme.parse(t).expect("parses").compile()).collect());
            let barrier = Arc::new(std::sync::Barrier::new(threads));
            let mut hs = Vec::new();
            for t in 0..threads {
                let (w2, b, fr, bs) = (w.clone(), barrier.clone(), fresh.clone(), base.clone());
                hs.push(std::thread::spawn(move || {
                    b.wait();
                    let mut bad = Vec::new();
                    for k in 0..fr.len() {
                        let j = t % w2.ctxs.len();
                        let got = guarded(|| fr[k].execute(&w2.ctxs[j]).expect("same scheme"));
                        if got != Ok(bs[k][j]) {
                            bad.push(format!("large filter {k} on context {j}: {got:?}, baseline {}", bs[k][j]));
                        }
                    }
                    bad
                }));
            }
            for h in hs {
                if let Ok(bad) = h.join() {
                    for b in bad {
                        run.violation(
                            format!("{ID}:free-running-first-use:{b}"),
                            format!("first execution of a freshly compiled filter raced by {threads} free-running threads: {b}"),
                            json!({"kind": "c18-free-running", "threads": threads}),
                        );
                    }
                }
                n += texts.len() as u64;
            }
            // and once more sequentially: whatever the race left behind stays observable
            for k in 0..fresh.len() {
                for j in 0..w.ctxs.len() {
                    let got = guarded(|| fresh[k].execute(&w.ctxs[j]).expect("same scheme"));
                    if got != Ok(base[k][j]) {
                        run.violation(
                            format!("{ID}:free-running-first-use:afterwards: large filter {k} on context {j}"),
                            format!("after its first executions were raced by {threads} threads, large filter {k} on context {j} gives {got:?}, baseline {}", base[k][j]),
                            json!({"kind": "c18-free-running", "threads": threads}),
                        );
                    }
                    n += 1;
                }
            }
        }
    }
    n
}

pub fn replay(case: &serde_json::Value) -> Result<u64, String> {
    if case["kind"] != "c18-schedule" {
        return Err("re-run `./run.sh C18 quick`".into());
    }
    let sc: Scenario = serde_json::from_value(case["scenario"].clone()).map_err(|e| e.to_string())?;
    let schedule: Vec<usize> = serde_json::from_value(case["schedule"].clone()).map_err(|e| e.to_string())?;
    let w = Arc::new(World::new());
    for a in &sc.warmup {
        let _ = perform(&w, a);
    }
    let bodies: Vec<Box<dyn FnOnce() -> Vec<Obs> + Send>> = sc
        .threads
        .iter()
        .map(|acts| {
            let (w2, acts) = (w.clone(), acts.clone());
            Box::new(move || acts.iter().map(|a| perform(&w2, a)).collect::<Vec<Obs>>()) as Box<dyn FnOnce() -> Vec<Obs> + Send>
        })
        .collect();
    match sched::run_once(bodies, &schedule) {
        Err(e) => {
            eprintln!("{e}");
            Ok(1)
        }
        Ok(x) => {
            let mut bad = 0;
            for (t, acts) in sc.threads.iter().enumerate() {
                for (a, act) in acts.iter().enumerate() {
                    if let Some(want) = expected(&w, act) {
                        if x.results[t][a] != want {
                            eprintln!("thread {t} {act:?}: {:?}, baseline {:?}", x.results[t][a], want);
                            bad += 1;
                        }
                    }
                }
            }
            Ok(bad)
        }
    }
}
