//! C03 — function calls, map-each application, concat, definition context (shape P, exhaustive).

use crate::ast::*;
use crate::ev::{Run, Tier, guarded, ncpu, par_for};
use crate::prog::{Bench, Outcome, case_json, check_filter, check_value, short_ctx};
use crate::sem::{lhs_ty, value_ty};
use crate::uni::{CallRec, MCtx, Uni, log_start, log_take};
use crate::unis;
use crate::val::{Ty, V};
use serde_json::json;
use std::collections::BTreeSet;
use std::sync::atomic::{AtomicU64, Ordering};

pub const ID: &str = "C03";

fn f(name: &str) -> Lhs {
    Lhs::field(name)
}
fn fp(name: &str, p: Vec<Idx>) -> Lhs {
    Lhs::fieldp(name, p)
}
fn call(name: &str, args: Vec<Arg>) -> Lhs {
    Lhs::call(name, args)
}
fn a(l: &Lhs) -> Arg {
    Arg::Lhs(l.clone())
}

/// Terms by static type, built level by level.
struct Terms {
    bytes: Vec<Vec<Lhs>>,     // per depth
    arr_bytes: Vec<Vec<Lhs>>, // Array(Bytes)
    ints: Vec<Vec<Lhs>>,
}

fn gen_terms(u: &Uni, max_depth: usize) -> Terms {
    let mut t = Terms { bytes: vec![], arr_bytes: vec![], ints: vec![] };
    // depth 0
    t.bytes.push(vec![f("s"), fp("xs", vec![Idx::N(0)]), fp("xs", vec![Idx::N(2)]), fp("ms", vec![Idx::K("a".into())])]);
    t.arr_bytes.push(vec![f("xs"), fp("xxs", vec![Idx::N(0)])]);
    t.ints.push(vec![f("i"), fp("xi", vec![Idx::N(1)])]);
    // expensive-to-reevaluate extra arguments (nested call / logical) and cheap ones
    let extra_bytes: Vec<Arg> = vec![
        a(&f("s")),
        Arg::Lit(Lit::str(b"L")),
        a(&call("idb", vec![a(&f("s"))])),
        a(&call("nie", vec![a(&f("s"))])),
        a(&fp("xs", vec![Idx::N(1)])),
    ];
    let extra_bool: Vec<Arg> = vec![
        a(&f("t")),
        Arg::Logical(Expr::cmp(f("i"), CmpOp::Eq, Rhs::Lit(Lit::int(1)))),
        Arg::Logical(Expr::not(Expr::IsTrue(f("t")))),
        Arg::Logical(Expr::paren(Expr::cmp(call("len", vec![a(&f("s"))]), CmpOp::Ge, Rhs::Lit(Lit::int(1))))),
        a(&call("isb", vec![a(&f("t"))])),
    ];
    for d in 0..max_depth {
        let prev_b: Vec<Lhs> = t.bytes[d].clone();
        let prev_a: Vec<Lhs> = t.arr_bytes[d].clone();
        let prev_i: Vec<Lhs> = t.ints[d].clone();
        let mut nb = Vec::new();
        let mut na = Vec::new();
        let mut ni = Vec::new();
        for b in &prev_b {
            for name in ["idb", "up", "nie", "both"] {
                nb.push(call(name, vec![a(b)]));
            }
            nb.push(call("opt", vec![a(b)]));
            nb.push(call("opt", vec![a(b), Arg::Lit(Lit::int(3))]));
            nb.push(call("opt", vec![a(b), a(&f("i")), Arg::Lit(Lit::str(b"q"))]));
            nb.push(call("opt", vec![a(b), Arg::Lit(Lit::int(-1)), a(&f("s"))]));
            for x in &extra_bytes {
                nb.push(call("cat2", vec![a(b), x.clone()]));
                nb.push(call("concat", vec![a(b), x.clone()]));
            }
            nb.push(call("concat", vec![Arg::Lit(Lit::str(b"L")), a(b), a(&f("s"))]));
            for x in &extra_bool {
                nb.push(call("pick", vec![a(b), x.clone()]));
            }
            nb.push(call("ctxfn", vec![a(b)]));
            nb.push(call("ctxfn", vec![a(b), Arg::Lit(Lit::int(1))]));
            nb.push(call("ctxfn", vec![Arg::Lit(Lit::Ip("1.2.3.4".parse().unwrap())), a(b), a(&f("t"))]));
            na.push(call("arr", vec![a(b)]));
            ni.push(call("len", vec![a(b)]));
            ni.push(call("lit", vec![a(b), Arg::Lit(Lit::int(5))]));
        }
        if d == 0 {
            nb.push(call("nul", vec![]));
            nb.push(call("both", vec![Arg::Lit(Lit::str(b"lit"))]));
            nb.push(call("ctxfn", vec![a(&f("i")), a(&f("ip"))]));
            ni.push(call("sum", vec![a(&f("xi"))]));
            ni.push(call("inc", vec![Arg::Lit(Lit::int(41))]));
            ni.push(call("cnt", vec![a(&f("xb"))]));
            ni.push(call("cnt", vec![Arg::Logical(Expr::cmp(fp("xi", vec![Idx::Each]), CmpOp::Ge, Rhs::Lit(Lit::int(2))))]));
        }
        for i in &prev_i {
            ni.push(call("inc", vec![a(i)]));
        }
        // map-each over arrays (and maps) of bytes: applied per element
        let mut mapped_srcs: Vec<Lhs> = Vec::new();
        for ar in &prev_a {
            let mut l = ar.clone();
            l.path.push(Idx::Each);
            mapped_srcs.push(l);
        }
        if d == 0 {
            mapped_srcs.push(fp("ms", vec![Idx::Each]));
            mapped_srcs.push(fp("xxs", vec![Idx::Each, Idx::Each]));
            mapped_srcs.push(fp("xxs", vec![Idx::Each, Idx::N(0)]));
        }
        for src in &mapped_srcs {
            for name in ["idb", "up", "nie"] {
                na.push(call(name, vec![a(src)]));
            }
            na.push(call("opt", vec![a(src), Arg::Lit(Lit::int(3))]));
            for x in &extra_bytes {
                na.push(call("cat2", vec![a(src), x.clone()]));
                na.push(call("concat", vec![a(src), x.clone()]));
            }
            for x in &extra_bool {
                na.push(call("pick", vec![a(src), x.clone()]));
            }
            na.push(call("ctxfn", vec![a(src), Arg::Lit(Lit::int(9))]));
            // two non-mapped arguments: their order must survive (cheap / memoised / mixed)
            na.push(call("opt", vec![a(src), Arg::Lit(Lit::int(3)), Arg::Lit(Lit::str(b"q"))]));
            na.push(call("opt", vec![a(src), a(&f("i")), a(&f("s"))]));
            na.push(call("opt", vec![a(src), a(&call("len", vec![a(&f("s"))])), a(&call("idb", vec![a(&f("s"))]))]));
            na.push(call("opt", vec![a(src), Arg::Lit(Lit::int(3)), a(&call("nie", vec![a(&f("s"))]))]));
            na.push(call("concat", vec![a(src), Arg::Lit(Lit::str(b"-a")), Arg::Lit(Lit::str(b"-b"))]));
            na.push(call("concat", vec![a(src), a(&f("s")), a(&call("up", vec![a(&f("s"))])), Arg::Lit(Lit::str(b"!"))]));
            na.push(call("ctxfn", vec![a(src), Arg::Lit(Lit::int(1)), a(&f("t"))]));
        }
        for ar in &prev_a {
            na.push(call("concat", vec![a(ar), a(&f("xs"))]));
            na.push(call("concat", vec![a(&f("xs")), a(ar), a(ar)]));
        }
        if d == 0 {
            // mapped Int functions
            // (sum over the inner arrays of xxi, len over xs)
            // their element type is Int; observed through value expressions only
        }
        nb.retain(|l| lhs_ty(u, l).is_ok());
        na.retain(|l| lhs_ty(u, l).is_ok());
        ni.retain(|l| lhs_ty(u, l).is_ok());
        t.bytes.push(nb);
        t.arr_bytes.push(na);
        t.ints.push(ni);
    }
    t
}

/// Does the expression contain an and/or chain over plain booleans (short-circuit)?
fn has_short_circuit_lhs(l: &Lhs) -> bool {
    match &l.id {
        Ident::Field(_) => false,
        Ident::Call(_, args) => args.iter().any(|a| match a {
            Arg::Lhs(l) => has_short_circuit_lhs(l),
            Arg::Lit(_) => false,
            Arg::Logical(e) => has_short_circuit(e),
        }),
    }
}

fn has_short_circuit(e: &Expr) -> bool {
    match e {
        Expr::Cmp { lhs, .. } | Expr::IsTrue(lhs) => has_short_circuit_lhs(lhs),
        Expr::Not(e) | Expr::Paren(e) => has_short_circuit(e),
        Expr::Chain(op, items) => *op != LOp::Xor || items.iter().any(has_short_circuit),
        Expr::Quant(_, a) => match &**a {
            QArg::Lhs(l) => has_short_circuit_lhs(l),
            QArg::Logical(e) => has_short_circuit(e),
        },
    }
}

/// Names of functions applied in map-each position whose other arguments may be memoised.
fn mapped_calls(l: &Lhs, out: &mut Vec<String>) {
    if let Ident::Call(n, args) = &l.id {
        if let Some(Arg::Lhs(first)) = args.first() {
            if first.each_count() > 0 {
                out.push(n.clone());
            }
        }
        for a in args {
            match a {
                Arg::Lhs(l) => mapped_calls(l, out),
                Arg::Logical(e) => mapped_calls_expr(e, out),
                Arg::Lit(_) => {}
            }
        }
    }
}

fn mapped_calls_expr(e: &Expr, out: &mut Vec<String>) {
    match e {
        Expr::Cmp { lhs, .. } | Expr::IsTrue(lhs) => mapped_calls(lhs, out),
        Expr::Not(e) | Expr::Paren(e) => mapped_calls_expr(e, out),
        Expr::Chain(_, items) => items.iter().for_each(|i| mapped_calls_expr(i, out)),
        Expr::Quant(_, a) => match &**a {
            QArg::Lhs(l) => mapped_calls(l, out),
            QArg::Logical(e) => mapped_calls_expr(e, out),
        },
    }
}

/// Compares the recorded invocations of the harness functions with the model's.
fn check_log(run: &Run, b: &Bench, l: &Lhs, text: &str) {
    if has_short_circuit_lhs(l) {
        return;
    }
    let ast = match b.scheme.parse_value(text) {
        Ok(a) => a,
        Err(_) => return, // reported by check_value
    };
    let fv = match guarded(|| ast.compile()) {
        Ok(f) => f,
        Err(_) => return,
    };
    let mut mapped = Vec::new();
    mapped_calls(l, &mut mapped);
    for i in 0..b.ctxs.len() {
        log_start();
        let r = guarded(|| fv.execute(&b.ctxs[i]).map(|r| r.is_ok()));
        let real = log_take();
        if r.is_err() {
            continue; // reported by check_value
        }
        let mut env = b.env(i);
        env.log = Some(Vec::new());
        let _ = env.value(l);
        let model = env.log.take().unwrap();
        run.eval(1);
        if real == model {
            if !real.is_empty() {
                run.count("logs_exact_nonempty", 1);
            }
            continue;
        }
        // The statement leaves open how often (0, 1 or n times) the non-mapped arguments of a
        // map-each call are evaluated. Robust comparison: every distinct invocation (function,
        // argument values) is recorded as often as the model performs it under per-element or
        // under up-front evaluation of those arguments, or in between (sites may differ). The
        // order of per-element results is checked through the returned array (check_value).
        let ok = if mapped.is_empty() {
            false
        } else {
            let mut env_b = b.env(i);
            env_b.log = Some(Vec::new());
            env_b.memo = true;
            let _ = env_b.value(l);
            let model_b = env_b.log.take().unwrap();
            // per distinct invocation record: the recorded count lies between the counts under
            // the two strategies (call sites may individually use either)
            let count = |v: &Vec<CallRec>| -> std::collections::BTreeMap<String, usize> {
                let mut m = std::collections::BTreeMap::new();
                for c in v {
                    *m.entry(format!("{c:?}")).or_insert(0usize) += 1;
                }
                m
            };
            let (ca, cb, cr) = (count(&model), count(&model_b), count(&real));
            let keys: BTreeSet<&String> = ca.keys().chain(cb.keys()).chain(cr.keys()).collect();
            keys.iter().all(|k| {
                let a = ca.get(*k).copied().unwrap_or(0);
                let b_ = cb.get(*k).copied().unwrap_or(0);
                let r = cr.get(*k).copied().unwrap_or(0);
                a.min(b_) <= r && r <= a.max(b_)
            })
        };
        if ok {
            run.count("logs_modulo_memoisation", 1);
        } else {
            run.violation(
                format!("{ID}:call-log:{}:{text}", b.tag),
                format!("{text:?} on {:?}: harness functions were invoked with {:?}, reference {:?}", short_ctx(&b.mctxs[i]), real, model),
                case_json(&b.tag, "calllog", text, json!(l), Some(&b.mctxs[i]), json!({"engine": real, "reference": model})),
            );
        }
    }
}

pub fn contexts() -> Vec<MCtx> {
    let sb = |s: &[u8]| V::Bytes(s.to_vec());
    let arr_b = |v: &[&[u8]]| V::Arr(Ty::Bytes, v.iter().map(|s| sb(s)).collect());
    let s_vals: Vec<Option<V>> = vec![None, Some(sb(b"")), Some(sb(b"a")), Some(sb(b"ab"))];
    let xs_vals: Vec<Option<V>> = vec![None, Some(arr_b(&[])), Some(arr_b(&[b"a"])), Some(arr_b(&[b"b", b"", b"a"]))];
    let ms_vals: Vec<Option<V>> = vec![
        None,
        Some(V::map(Ty::Bytes, vec![])),
        Some(V::map(Ty::Bytes, vec![(b"z", sb(b"a")), (b"a", sb(b"")), (b"\xfe", sb(b"k"))])),
    ];
    let t_vals: Vec<Option<V>> = vec![None, Some(V::Bool(true)), Some(V::Bool(false))];
    let i_vals: Vec<Option<V>> = vec![None, Some(V::Int(1))];
    let xxs_vals: Vec<Option<V>> = vec![
        None,
        Some(V::arr(Ty::arr(Ty::Bytes), vec![arr_b(&[b"a", b"b"]), arr_b(&[]), arr_b(&[b""])])),
    ];
    let mut out = Vec::new();
    for s in &s_vals {
        for xs in &xs_vals {
            for ms in &ms_vals {
                for t in &t_vals {
                    for i in &i_vals {
                        for xxs in &xxs_vals {
                            let mut m = MCtx::new();
                            for (n, v) in [("s", s), ("xs", xs), ("ms", ms), ("t", t), ("i", i), ("xxs", xxs)] {
                                if let Some(v) = v {
                                    m.insert(n.to_string(), v.clone());
                                }
                            }
                            // fields used by a few depth-0 terms, fixed
                            m.insert("xi".into(), V::arr(Ty::Int, vec![V::Int(1), V::Int(2), V::Int(3)]));
                            m.insert("xb".into(), V::arr(Ty::Bool, vec![V::Bool(true), V::Bool(false), V::Bool(true)]));
                            m.insert("ip".into(), V::Ip("::1".parse().unwrap()));
                            out.push(m);
                        }
                    }
                }
            }
        }
    }
    out
}

pub fn run(tier: Tier, seed: u64) -> i32 {
    let run = Run::new(ID, "exploration", tier, seed);
    run.assume("argument values come from the context pools; harness functions are pure and shared between engine and model");
    let nontrivial = AtomicU64::new(0);
    let programs = AtomicU64::new(0);
    let note = |o: Outcome| {
        programs.fetch_add(1, Ordering::Relaxed);
        if o.trues > 0 && o.falses > 0 {
            nontrivial.fetch_add(1, Ordering::Relaxed);
        }
    };
    let max_depth = tier.pick(2usize, 3usize);
    for nil_ne in [true, false] {
        let (tag, uni) = unis::containers(nil_ne);
        let terms = gen_terms(&uni, max_depth);
        let b = Bench::new(&tag, uni.clone(), contexts());
        let mut all: Vec<Lhs> = Vec::new();
        let mut level: Vec<usize> = Vec::new();
        for d in 0..=max_depth {
            // at the deepest level keep every k-th term in quick mode to bound the run
            all.extend(terms.bytes[d].iter().cloned());
            all.extend(terms.arr_bytes[d].iter().cloned());
            all.extend(terms.ints[d].iter().cloned());
            level.resize(all.len(), d);
        }
        run.count("terms", all.len() as u64);
        par_for(all.len(), ncpu(), |k| {
            let l = &all[k];
            let ty = value_ty(&b.uni, l).expect("typed term");
            // (i) exact value through a value expression
            check_value(&run, ID, &b, l);
            // (ii) invocation log
            if nil_ne {
                check_log(&run, &b, l, &render_value(l));
            }
            // compared / indexed like a field
            let mut filters: Vec<Expr> = Vec::new();
            match &ty {
                Ty::Bytes => {
                    filters.push(Expr::cmp(l.clone(), CmpOp::Eq, Rhs::Lit(Lit::str(b"a"))));
                    filters.push(Expr::cmp(l.clone(), CmpOp::Ne, Rhs::Lit(Lit::str(b"a"))));
                }
                Ty::Int => {
                    filters.push(Expr::cmp(l.clone(), CmpOp::Ge, Rhs::Lit(Lit::int(2))));
                    filters.push(Expr::cmp(l.clone(), CmpOp::Ne, Rhs::Lit(Lit::int(1))));
                }
                Ty::Arr(e) if **e == Ty::Bytes => {
                    let mut each = l.clone();
                    each.path.push(Idx::Each);
                    let c = Expr::cmp(each.clone(), CmpOp::Eq, Rhs::Lit(Lit::str(b"a")));
                    filters.push(Expr::any(QArg::Logical(c.clone())));
                    filters.push(Expr::all(QArg::Logical(c)));
                    let mut one = l.clone();
                    one.path.push(Idx::N(1));
                    filters.push(Expr::cmp(one.clone(), CmpOp::Ne, Rhs::Lit(Lit::str(b"a"))));
                    filters.push(Expr::cmp(one, CmpOp::Contains, Rhs::Lit(Lit::str(b"a"))));
                    // a mapped call over the result of this call, as a value (its static type,
                    // Array(Int), differs from what it maps over: the tag of an absence shows it)
                    // (for terms up to nesting 2: the third level only repeats the shapes)
                    if level[k] <= 2 {
                        check_value(&run, ID, &b, &Lhs::call("len", vec![Arg::Lhs(each.clone())]));
                    }
                    // ... and under a quantifier
                    filters.push(Expr::any(QArg::Logical(Expr::cmp(
                        Lhs::callp("len", vec![Arg::Lhs(each)], vec![Idx::Each]),
                        CmpOp::Eq,
                        Rhs::Lit(Lit::int(1)),
                    ))));
                }
                _ => {}
            }
            for e in filters {
                note(check_filter(&run, ID, &b, &e));
                if k % 97 == 5 {
                    run.sample(10, || json!({"universe": b.tag, "filter": render(&e), "contexts": b.ctxs.len()}));
                }
            }
            if k % 131 == 7 {
                run.sample(16, || json!({"universe": b.tag, "value_expression": render_value(l), "static_type": ty.short()}));
            }
        });
    }
    // non-mapped arguments that are calls over a literal *and* a field (they look constant to a
    // careless analysis): one compiled filter executed on every context in turn
    for nil_ne in [true, false] {
        let (tag, uni) = unis::containers(nil_ne);
        let b = Bench::new(&tag, uni.clone(), contexts());
        let s_ = || Arg::Lhs(Lhs::field("s"));
        let mixed: Vec<Lhs> = vec![
            Lhs::call("cat2", vec![s_(), Arg::Lit(Lit::str(b"L"))]),
            Lhs::call("opt", vec![s_(), Arg::Lit(Lit::int(3))]),
            Lhs::call("opt", vec![s_(), Arg::Lit(Lit::int(3)), Arg::Lit(Lit::str(b"q"))]),
            Lhs::call("concat", vec![Arg::Lit(Lit::str(b"-")), s_()]),
            Lhs::call("concat", vec![s_(), Arg::Lit(Lit::str(b"-")), s_()]),
            Lhs::call("cat2", vec![Arg::Lhs(Lhs::call("idb", vec![s_()])), Arg::Lit(Lit::str(b"L"))]),
        ];
        for extra in &mixed {
            for outer in ["cat2", "concat"] {
                for mapped in ["xs", "ms"] {
                    let l = Lhs::call(outer, vec![Arg::Lhs(Lhs::fieldp(mapped, vec![Idx::Each])), Arg::Lhs(extra.clone())]);
                    if value_ty(&b.uni, &l).is_err() {
                        continue;
                    }
                    check_value(&run, ID, &b, &l);
                    run.count("mixed_extra_argument_terms", 1);
                    let mut each = l.clone();
                    each.path.push(Idx::Each);
                    for lit in [&b"a+a+L"[..], b"a-a", b"aa-a", b"a+a|3|d"] {
                        note(check_filter(&run, ID, &b, &Expr::any(QArg::Logical(Expr::cmp(each.clone(), CmpOp::Eq, Rhs::Lit(Lit::str(lit)))))));
                    }
                }
            }
        }
    }
    run.set("programs", json!(programs.load(Ordering::Relaxed)));
    run.set("bounds", json!({"max_call_nesting": max_depth}));
    run.finish(
        nontrivial.load(Ordering::Relaxed),
        "every call term up to the nesting bound (all harness functions x argument shapes incl. map-each, memoised and re-evaluated extra arguments, omitted optionals, absent arguments, concat, per-call context) as value expression, in comparisons and under quantifiers x every context; invocation logs compared; non-trivial = filter observed both true and false",
        true,
        &[("terms", 200), ("logs_exact_nonempty", 1000), ("logs_modulo_memoisation", 1)],
    )
}
