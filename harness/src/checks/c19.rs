//! C19 — the panic catcher (shape H: every step sequence on a fresh thread against a reference
//! machine; shape S: all interleavings of two such threads at step granularity).

use crate::ev::{Run, Tier, ncpu, par_for};
use crate::sched;
use serde::{Deserialize, Serialize};
use serde_json::json;
use std::cell::{Cell, RefCell};
use std::panic::AssertUnwindSafe;
use std::sync::Once;
use wirefilter::{
    PanicCatcherFallbackMode, catch_panic, panic_catcher_disable, panic_catcher_enable, panic_catcher_get_backtrace,
    panic_catcher_set_fallback_mode, panic_catcher_set_hook,
};

pub const ID: &str = "C19";

#[derive(Clone, Copy, Debug, PartialEq, Eq, Hash, PartialOrd, Ord, Serialize, Deserialize)]
pub enum Step {
    Enable,
    Disable,
    Enter,
    Return,
    Panic,
    SetHook,
    SetFallbackContinue,
    GetBacktrace,
}

const ALPHABET: [Step; 8] = [Step::Enable, Step::Disable, Step::Enter, Step::Return, Step::Panic, Step::SetHook, Step::SetFallbackContinue, Step::GetBacktrace];
const SMALL: [Step; 5] = [Step::Enable, Step::Disable, Step::Enter, Step::Return, Step::Panic];

#[derive(Clone, Debug, PartialEq, Eq, Serialize, Deserialize)]
pub enum Obs {
    /// a frame returned the value given at step index
    FrameOk(usize),
    /// a frame caught a panic and its text contains the message of step index
    FrameErr(usize),
    /// a catching frame returned an error text that does NOT contain the expected message
    FrameErrOther(String),
    /// the steps ended inside the frame
    FrameEnd,
    /// a panic reached the code outside catch_panic; `sentinel` = the previously installed hook saw its message
    Outer { step: usize, sentinel: bool },
    /// get_backtrace: Some(step index of the message it contains) / None / text without a known message
    Backtrace(Option<usize>),
    BacktraceOther,
    /// number of catching frames open after the step (read through the cfg-guarded accessor)
    Level(u64),
    FallbackWas(bool),
}

thread_local! {
    static SENTINEL_SEEN: RefCell<Vec<String>> = const { RefCell::new(Vec::new()) };
    static LOG: RefCell<Vec<Obs>> = const { RefCell::new(Vec::new()) };
    static TAG: Cell<usize> = const { Cell::new(0) };
}

static INSTALL: Once = Once::new();

/// Installs a sentinel hook (recording what reaches it, per thread) and then the catcher's hook on top.
pub fn install_hooks() {
    INSTALL.call_once(|| {
        std::panic::set_hook(Box::new(|info| {
            let msg = if let Some(s) = info.payload().downcast_ref::<&str>() {
                (*s).to_string()
            } else if let Some(s) = info.payload().downcast_ref::<String>() {
                s.clone()
            } else {
                "<non-string>".to_string()
            };
            SENTINEL_SEEN.with(|s| s.borrow_mut().push(msg));
        }));
        panic_catcher_set_hook();
    });
}

fn msg(tag: usize, step: usize) -> String {
    // two lines: the whole message has to be in the error text, not just its first line
    format!("boom-t{tag}-s{step}\nline two of t{tag}-s{step}-end")
}

fn find_msg(text: &str, tag: usize, n: usize) -> Option<usize> {
    (0..n).find(|i| text.contains(&msg(tag, *i)))
}

fn log(o: Obs) {
    LOG.with(|l| l.borrow_mut().push(o));
}

fn level() -> u64 {
    wirefilter::verif::panic_catcher_level()
}

struct UnwindPoint(bool);

impl Drop for UnwindPoint {
    fn drop(&mut self) {
        if self.0 && std::thread::panicking() {
            sched::yield_now("unwinding");
        }
    }
}

/// Interprets steps from the shared cursor; returns `Some(idx)` when a `Return` closes the
/// current frame, `None` when the steps are exhausted.
fn exec(steps: &[Step], cur: &Cell<usize>, depth: usize, tag: usize, with_points: bool) -> Option<usize> {
    loop {
        let i = cur.get();
        if i >= steps.len() {
            return None;
        }
        if with_points {
            sched::yield_now("step");
        }
        cur.set(i + 1);
        match steps[i] {
            Step::Enable => panic_catcher_enable(),
            Step::Disable => panic_catcher_disable(),
            Step::SetHook => panic_catcher_set_hook(),
            Step::SetFallbackContinue => {
                let prev = panic_catcher_set_fallback_mode(PanicCatcherFallbackMode::Continue);
                log(Obs::FallbackWas(prev == PanicCatcherFallbackMode::Continue));
            }
            Step::GetBacktrace => match panic_catcher_get_backtrace() {
                None => log(Obs::Backtrace(None)),
                Some(t) => match find_msg(&t, tag, steps.len()) {
                    Some(k) => log(Obs::Backtrace(Some(k))),
                    None => log(Obs::BacktraceOther),
                },
            },
            Step::Enter => {
                let r = catch_panic(AssertUnwindSafe(|| {
                    // a scheduling point while a panic unwinds through this frame: after the hook
                    // recorded the panic, before catch_panic builds its error text
                    let _unwinding = UnwindPoint(with_points);
                    exec(steps, cur, depth + 1, tag, with_points)
                }));
                match r {
                    Ok(Some(v)) => log(Obs::FrameOk(v)),
                    Ok(None) => log(Obs::FrameEnd),
                    Err(text) => match find_msg(&text, tag, steps.len()) {
                        Some(k) => log(Obs::FrameErr(k)),
                        None => log(Obs::FrameErrOther(text.lines().next().unwrap_or("").chars().take(120).collect())),
                    },
                }
            }
            Step::Return => {
                if depth > 0 {
                    return Some(i);
                }
            }
            Step::Panic => {
                panic!("{}", msg(tag, i));
            }
        }
        log(Obs::Level(level()));
    }
}

/// Runs a whole sequence on the current thread; the outermost catch_unwind plays "outside catch_panic".
pub fn interpret(steps: &[Step], tag: usize, with_points: bool) -> Vec<Obs> {
    install_hooks();
    LOG.with(|l| l.borrow_mut().clear());
    SENTINEL_SEEN.with(|s| s.borrow_mut().clear());
    let cur = Cell::new(0usize);
    loop {
        let before = cur.get();
        let r = std::panic::catch_unwind(AssertUnwindSafe(|| exec(steps, &cur, 0, tag, with_points)));
        match r {
            Ok(_) => break,
            Err(payload) => {
                let text = if let Some(s) = payload.downcast_ref::<String>() { s.clone() } else if let Some(s) = payload.downcast_ref::<&str>() { (*s).to_string() } else { String::new() };
                let step = find_msg(&text, tag, steps.len()).unwrap_or(usize::MAX);
                let sentinel = SENTINEL_SEEN.with(|s| s.borrow().last().map(|m| m == &text).unwrap_or(false));
                log(Obs::Outer { step, sentinel });
                log(Obs::Level(level()));
                if cur.get() == before {
                    break; // no progress: cannot happen (a panic consumes its step)
                }
            }
        }
    }
    LOG.with(|l| l.borrow().clone())
}

/// Abstract state of the catcher after a history: (enabled, open frames (catching?), a message was recorded).
pub fn model_state(steps: &[Step]) -> (bool, Vec<bool>, bool) {
    let mut enabled = false;
    let mut frames: Vec<bool> = Vec::new();
    let mut last = false;
    for s in steps {
        match s {
            Step::Enable => enabled = true,
            Step::Disable => enabled = false,
            Step::Enter => frames.push(enabled),
            Step::Return => {
                frames.pop();
            }
            Step::Panic => {
                while let Some(catching) = frames.pop() {
                    if catching {
                        last = true;
                        break;
                    }
                }
            }
            _ => {}
        }
    }
    (enabled, frames, last)
}

/// The reference machine.
pub fn model(steps: &[Step]) -> Vec<Obs> {
    let mut out = Vec::new();
    let mut enabled = false;
    let mut frames: Vec<bool> = Vec::new(); // catching?
    let mut last: Option<usize> = None;
    let lvl = |f: &Vec<bool>| f.iter().filter(|c| **c).count() as u64;
    for (i, s) in steps.iter().enumerate() {
        match s {
            Step::Enable => {
                enabled = true;
                out.push(Obs::Level(lvl(&frames)));
            }
            Step::Disable => {
                enabled = false;
                out.push(Obs::Level(lvl(&frames)));
            }
            Step::SetHook => out.push(Obs::Level(lvl(&frames))),
            Step::SetFallbackContinue => {
                out.push(Obs::FallbackWas(true));
                out.push(Obs::Level(lvl(&frames)));
            }
            Step::GetBacktrace => {
                out.push(Obs::Backtrace(last));
                out.push(Obs::Level(lvl(&frames)));
            }
            Step::Enter => frames.push(enabled),
            Step::Return => {
                if frames.pop().is_some() {
                    out.push(Obs::FrameOk(i));
                }
                out.push(Obs::Level(lvl(&frames)));
            }
            Step::Panic => {
                // unwinds through transparent frames to the nearest catching one
                let mut caught = false;
                while let Some(catching) = frames.pop() {
                    if catching {
                        caught = true;
                        break;
                    }
                }
                if caught {
                    last = Some(i);
                    out.push(Obs::FrameErr(i));
                } else {
                    out.push(Obs::Outer { step: i, sentinel: true });
                }
                out.push(Obs::Level(lvl(&frames)));
            }
        }
    }
    while frames.pop().is_some() {
        out.push(Obs::FrameEnd);
        out.push(Obs::Level(lvl(&frames)));
    }
    out
}

fn run_on_fresh_thread(steps: Vec<Step>, tag: usize) -> Result<Vec<Obs>, String> {
    std::thread::Builder::new()
        .name(format!("c19-{tag}"))
        .spawn(move || interpret(&steps, tag, false))
        .map_err(|e| e.to_string())?
        .join()
        .map_err(|_| "interpreter thread died".to_string())
}

fn seq_from_code(mut code: usize, len: usize, alphabet: &[Step]) -> Vec<Step> {
    let mut v = Vec::with_capacity(len);
    for _ in 0..len {
        v.push(alphabet[code % alphabet.len()]);
        code /= alphabet.len();
    }
    v
}

pub fn run(tier: Tier, seed: u64) -> i32 {
    let run = Run::new(ID, "model_checking", tier, seed);
    run.assume("precondition of the property: the catcher's hook is installed (after a sentinel hook); fallback mode Abort aborts the process by design and is not driven");
    install_hooks();
    // every caught panic captures and symbolises a backtrace (kernel-bound: mapping the binary);
    // more than a few concurrent interpreters only contend
    let workers = ncpu().min(4);
    let max_len = tier.pick(5usize, 6usize);
    let na = ALPHABET.len();
    let mut sequences = 0u64;
    for len in 0..=max_len {
        let jobs = na.pow(len as u32);
        par_for(jobs, workers, |code| {
            let steps = seq_from_code(code, len, &ALPHABET);
            let want = model(&steps);
            let got = run_on_fresh_thread(steps.clone(), 0);
            run.eval(1);
            if got.as_ref() != Ok(&want) {
                run.violation(
                    format!("{ID}:sequence:{steps:?}"),
                    format!("steps {steps:?}: observed {got:?}, reference {want:?}"),
                    json!({"kind": "c19-sequence", "steps": steps}),
                );
            }
            if want.iter().any(|o| matches!(o, Obs::FrameErr(_))) {
                run.count("sequences_with_caught_panic", 1);
            }
            if want.iter().any(|o| matches!(o, Obs::Outer { .. })) {
                run.count("sequences_with_uncaught_panic", 1);
            }
            if want.iter().any(|o| matches!(o, Obs::Level(n) if *n >= 2)) {
                run.count("sequences_with_nested_catching_frames", 1);
            }
            if code % 4099 == 7 {
                run.sample(8, || json!({"steps": format!("{steps:?}"), "observations": format!("{want:?}")}));
            }
        });
        sequences += jobs as u64;
    }
    run.count("sequences", sequences);

    // deeper, structured sequences (nesting up to 6, toggles between frames)
    let deep: Vec<Vec<Step>> = {
        use Step::*;
        vec![
            vec![Enable, Enter, Enter, Enter, Enter, Enter, Enter, Panic, Panic, Return, Panic, Return, Return, GetBacktrace, Panic, GetBacktrace],
            vec![Enable, Enter, Disable, Enter, Enable, Enter, Disable, Enter, Panic, GetBacktrace, Panic, Return, Panic],
            vec![Enable, Enter, Disable, Return, Panic, Enable, Enter, Panic, GetBacktrace, Disable, Enter, Enter, Return, Panic, Panic],
            vec![Enter, Enable, Enter, Disable, Panic, Return, Panic, Enable, Enter, Enter, Disable, Return, Return, Panic],
            vec![Enable, Enter, Enter, Disable, Panic, Enable, Panic, Panic, SetHook, Enter, Panic, GetBacktrace],
        ]
    };
    for steps in deep {
        let want = model(&steps);
        let got = run_on_fresh_thread(steps.clone(), 0);
        run.eval(1);
        run.count("deep_sequences", 1);
        if got.as_ref() != Ok(&want) {
            run.violation(
                format!("{ID}:sequence:{steps:?}"),
                format!("steps {steps:?}: observed {got:?}, reference {want:?}"),
                json!({"kind": "c19-sequence", "steps": steps}),
            );
        }
    }

    // ---- longer histories: BFS with one representative history per abstract catcher state ----------
    // (sound as long as the catcher's behaviour depends only on enabled flag, frame stack and recorded
    // message - which is exactly what every run re-validates against the reference machine)
    {
        let max_depth = tier.pick(8usize, 10usize);
        let mut seen: std::collections::BTreeSet<(bool, Vec<bool>, bool)> = std::collections::BTreeSet::new();
        seen.insert(model_state(&[]));
        let mut frontier: Vec<Vec<Step>> = vec![vec![]];
        let (mut bfs_states, mut bfs_transitions) = (1u64, 0u64);
        for _d in 1..=max_depth {
            let cands: Vec<Vec<Step>> = frontier.iter().flat_map(|h| ALPHABET.iter().map(move |s| { let mut x = h.clone(); x.push(*s); x })).collect();
            par_for(cands.len(), workers, |k| {
                let steps = &cands[k];
                let want = model(steps);
                let got = run_on_fresh_thread(steps.clone(), 0);
                run.eval(1);
                if got.as_ref() != Ok(&want) {
                    run.violation(
                        format!("{ID}:sequence:{steps:?}"),
                        format!("steps {steps:?}: observed {got:?}, reference {want:?}"),
                        json!({"kind": "c19-sequence", "steps": steps}),
                    );
                }
            });
            let mut next = Vec::new();
            for h in cands {
                bfs_transitions += 1;
                if seen.insert(model_state(&h)) {
                    bfs_states += 1;
                    next.push(h);
                }
            }
            frontier = next;
        }
        run.count("bfs_states", bfs_states);
        run.count("bfs_transitions", bfs_transitions);
        run.set("bfs", json!({"max_history_length": max_depth, "abstract_states": bfs_states, "transitions": bfs_transitions}));
    }

    // ---- two threads: every pair of short sequences x every interleaving at step granularity ----
    let (la, lb) = tier.pick((2usize, 2usize), (3usize, 2usize));
    let seqs = |max: usize| -> Vec<Vec<Step>> {
        let mut v = Vec::new();
        for len in 1..=max {
            for code in 0..SMALL.len().pow(len as u32) {
                v.push(seq_from_code(code, len, &SMALL));
            }
        }
        v
    };
    // catching has to be switched on before anything is caught: every sequence of the bound's
    // length over the other four steps is also run behind a leading `enable`
    let behind_enable = |len: usize| -> Vec<Vec<Step>> {
        let rest: Vec<Step> = SMALL.iter().copied().filter(|s| *s != Step::Enable).collect();
        (0..rest.len().pow(len as u32))
            .map(|code| {
                let mut v = vec![Step::Enable];
                v.extend(seq_from_code(code, len, &rest));
                v
            })
            // without a frame the leading `enable` changes nothing observable
            .filter(|v| v.contains(&Step::Enter))
            .collect()
    };
    let (mut sa, mut sb) = (seqs(la), seqs(lb));
    sa.extend(behind_enable(2));
    sb.extend(behind_enable(2));
    sa.sort();
    sa.dedup();
    sb.sort();
    sb.dedup();
    let pairs: Vec<(usize, usize)> = (0..sa.len()).flat_map(|a| (0..sb.len()).map(move |b| (a, b))).collect();
    let schedules = std::sync::atomic::AtomicU64::new(0);
    let points = std::sync::atomic::AtomicU64::new(0);
    // schedules spawn threads of their own: keep the outer parallelism modest
    par_for(pairs.len(), (workers / 2).max(1), |pi| {
        let (a, b) = pairs[pi];
        let (ta, tb) = (sa[a].clone(), sb[b].clone());
        let want = [model(&ta), model(&tb)];
        let (ta2, tb2) = (ta.clone(), tb.clone());
        let mk = move || -> Vec<Box<dyn FnOnce() -> Vec<Obs> + Send>> {
            let (x, y) = (ta2.clone(), tb2.clone());
            vec![Box::new(move || interpret(&x, 0, true)), Box::new(move || interpret(&y, 1, true))]
        };
        let mut check = |x: &sched::Execution<Vec<Obs>>, choices: &[usize]| {
            for t in 0..2 {
                if x.results[t] != want[t] {
                    run.count("two_thread_mismatches", 1);
                    run.violation(
                        format!("{ID}:two-threads:{ta:?}:{tb:?}:t{t}"),
                        format!("threads {ta:?} || {tb:?}: thread {t} observed {:?}, reference {:?}; schedule {:?}", x.results[t], want[t], sched::format_schedule(&x.trace)),
                        json!({"kind": "c19-pair", "a": ta, "b": tb, "schedule": choices}),
                    );
                }
            }
            true
        };
        let mut on_error = |e: String, choices: &[usize]| {
            run.violation(
                format!("{ID}:two-threads-error:{ta:?}:{tb:?}"),
                format!("threads {ta:?} || {tb:?}: {e}"),
                json!({"kind": "c19-pair", "a": ta, "b": tb, "schedule": choices}),
            );
        };
        let st = sched::explore(&mk, usize::MAX / 2, 100_000, &mut check, &mut on_error);
        schedules.fetch_add(st.schedules, std::sync::atomic::Ordering::Relaxed);
        points.fetch_add(st.points_total, std::sync::atomic::Ordering::Relaxed);
    });
    let schedules = schedules.load(std::sync::atomic::Ordering::Relaxed);
    run.eval(schedules);
    run.count("two_thread_schedules", schedules);
    run.set("states", json!(sequences + points.load(std::sync::atomic::Ordering::Relaxed)));
    run.set("transitions", json!(sequences * max_len as u64 + points.load(std::sync::atomic::Ordering::Relaxed)));
    run.set("traces_validated_against_impl", json!(sequences + schedules));
    run.set("bounds", json!({"single_thread_max_length": max_len, "alphabet": format!("{ALPHABET:?}"), "two_thread_lengths": [la, lb], "two_thread_alphabet": format!("{SMALL:?}"), "interleavings": "all (no preemption bound)"}));
    run.finish(
        sequences,
        "every sequence up to the length bound over {enable, disable, enter catch_panic, return, panic(unique message), set hook again, set fallback Continue, get backtrace} interpreted for real on a fresh thread (real catch_panic frames, real unwinding, outermost catch_unwind = outside) against the reference machine: frame results, panic texts, nesting level after every step, sentinel hook reception, backtrace; every pair of short sequences on two threads under every interleaving at step granularity",
        true,
        &[("sequences", 1000), ("sequences_with_caught_panic", 100), ("sequences_with_uncaught_panic", 100), ("sequences_with_nested_catching_frames", 10), ("two_thread_schedules", 1000)],
    )
}

pub fn replay(case: &serde_json::Value) -> Result<u64, String> {
    install_hooks();
    match case["kind"].as_str().unwrap_or("") {
        "c19-sequence" => {
            let steps: Vec<Step> = serde_json::from_value(case["steps"].clone()).map_err(|e| e.to_string())?;
            let want = model(&steps);
            let got = run_on_fresh_thread(steps, 0)?;
            if got != want {
                eprintln!("observed {got:?}\nreference {want:?}");
                Ok(1)
            } else {
                Ok(0)
            }
        }
        "c19-pair" => {
            let a: Vec<Step> = serde_json::from_value(case["a"].clone()).map_err(|e| e.to_string())?;
            let b: Vec<Step> = serde_json::from_value(case["b"].clone()).map_err(|e| e.to_string())?;
            let schedule: Vec<usize> = serde_json::from_value(case["schedule"].clone()).map_err(|e| e.to_string())?;
            let want = [model(&a), model(&b)];
            let bodies: Vec<Box<dyn FnOnce() -> Vec<Obs> + Send>> = vec![Box::new(move || interpret(&a, 0, true)), Box::new(move || interpret(&b, 1, true))];
            let x = sched::run_once(bodies, &schedule)?;
            Ok((0..2).filter(|t| x.results[*t] != want[*t]).count() as u64)
        }
        _ => Err("unknown C19 case".into()),
    }
}
