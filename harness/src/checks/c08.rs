//! C08 — execution contexts are typed maps bound to one scheme (shape H: explicit-state BFS).

use crate::ev::{Run, Tier, guarded, ncpu, par_for};
use crate::val::{Ty, V};
use serde::{Deserialize, Serialize};
use serde_json::json;
use std::collections::{BTreeMap, HashMap};
use std::sync::Mutex;
use wirefilter::{Array, ExecutionContext, Filter, FilterValue, LhsValue, Map, Scheme, SchemeBuilder, Type, TypeMismatchError};

pub const ID: &str = "C08";

const FIELDS: [&str; 4] = ["n", "s", "a", "m"];

fn field_ty(f: usize) -> Ty {
    match f {
        0 => Ty::Int,
        1 => Ty::Bytes,
        2 => Ty::arr(Ty::Int),
        _ => Ty::map(Ty::arr(Ty::Bytes)),
    }
}

fn build_scheme() -> Scheme {
    let mut b = SchemeBuilder::new();
    for (i, f) in FIELDS.iter().enumerate() {
        b.add_optional_field(*f, field_ty(i).to_engine()).unwrap();
    }
    b.build()
}

fn sb(s: &[u8]) -> V {
    V::Bytes(s.to_vec())
}

/// Per field: two well-typed values, then ill-typed ones (wrong primitive, right container / wrong
/// element, right shape / wrong depth, wrong container).
fn value_pool(f: usize) -> Vec<V> {
    match f {
        0 => vec![V::Int(1), V::Int(2), sb(b"1"), V::Bool(true), V::arr(Ty::Int, vec![V::Int(1)])],
        1 => vec![sb(b"a"), sb(b""), V::Int(97), V::arr(Ty::Bytes, vec![sb(b"a")]), V::Ip("::1".parse().unwrap())],
        2 => vec![
            V::arr(Ty::Int, vec![]),
            V::arr(Ty::Int, vec![V::Int(1), V::Int(2)]),
            V::arr(Ty::Bytes, vec![sb(b"a")]),
            V::arr(Ty::Bytes, vec![]),
            V::Int(5),
            V::arr(Ty::arr(Ty::Int), vec![V::arr(Ty::Int, vec![V::Int(1)])]),
            V::map(Ty::Int, vec![(b"k", V::Int(1))]),
        ],
        _ => vec![
            V::map(Ty::arr(Ty::Bytes), vec![]),
            V::map(Ty::arr(Ty::Bytes), vec![(b"k", V::arr(Ty::Bytes, vec![sb(b"a")]))]),
            V::map(Ty::Bytes, vec![(b"k", sb(b"a"))]),
            V::map(Ty::Bytes, vec![]),
            V::map(Ty::arr(Ty::Int), vec![(b"k", V::arr(Ty::Int, vec![V::Int(1)]))]),
            V::arr(Ty::arr(Ty::Bytes), vec![]),
            V::map(Ty::arr(Ty::arr(Ty::Bytes)), vec![]),
        ],
    }
}

#[derive(Clone, Debug, PartialEq, Eq, Hash, PartialOrd, Ord, Serialize, Deserialize)]
pub struct MC {
    /// 0 = scheme A (and its clone), 1 = the structurally identical scheme B
    sch: u8,
    vals: [Option<V>; 4],
}

pub type State = Vec<MC>;

#[derive(Clone, Debug, PartialEq, Eq, Serialize, Deserialize)]
pub enum Op {
    /// set through a FieldRef taken from scheme `via` (0 = A, 1 = B, 2 = clone of A)
    Set { c: usize, f: usize, v: usize, via: u8 },
    SetByName { c: usize, name: String, f: usize, v: usize },
    Clear { c: usize },
    CloneWith { c: usize },
    NewOnB,
    Take { c: usize },
    Borrow { c: usize, sets: Vec<(usize, usize)> },
    /// the same, but the borrow ends by a panic unwinding through the guard (caught outside)
    BorrowUnwind { c: usize, sets: Vec<(usize, usize)> },
    DropSecond,
}

fn ops_for(state: &State) -> Vec<Op> {
    let mut v = Vec::new();
    for c in 0..state.len() {
        for f in 0..4 {
            for k in 0..value_pool(f).len() {
                for via in 0..3u8 {
                    v.push(Op::Set { c, f, v: k, via });
                }
                v.push(Op::SetByName { c, name: FIELDS[f].to_string(), f, v: k });
            }
        }
        v.push(Op::SetByName { c, name: "nope".into(), f: 0, v: 0 });
        v.push(Op::SetByName { c, name: "N".into(), f: 0, v: 0 });
        v.push(Op::Clear { c });
        v.push(Op::Take { c });
        if state.len() < 2 {
            v.push(Op::CloneWith { c });
        }
        // guard scopes: one or two inner sets (well-typed and ill-typed)
        v.push(Op::Borrow { c, sets: vec![] });
        v.push(Op::Borrow { c, sets: vec![(0, 1)] });
        v.push(Op::Borrow { c, sets: vec![(1, 0), (1, 2)] });
        v.push(Op::Borrow { c, sets: vec![(2, 1), (3, 1)] });
        v.push(Op::Borrow { c, sets: vec![(2, 2), (0, 0)] });
        v.push(Op::BorrowUnwind { c, sets: vec![(0, 1)] });
        v.push(Op::BorrowUnwind { c, sets: vec![(1, 0), (2, 1)] });
    }
    if state.len() < 2 {
        v.push(Op::NewOnB);
    } else {
        v.push(Op::DropSecond);
    }
    v
}

struct World {
    a: Scheme,
    a2: Scheme,
    b: Scheme,
    filters: Vec<(u8, &'static str, Filter)>,
    values: Vec<(u8, &'static str, FilterValue)>,
}

const FILTER_SRC: [&str; 5] = ["n == 1", "s != \"a\"", "any(a[*] == 2)", "m[\"k\"][0] == \"a\"", "n in {2..3} or not s contains \"a\""];
const VALUE_SRC: [&str; 3] = ["a", "m[\"k\"]", "n"];

impl World {
    fn new() -> World {
        let a = build_scheme();
        let a2 = a.clone();
        let b = build_scheme();
        let mut filters = Vec::new();
        let mut values = Vec::new();
        for (id, s) in [(0u8, &a), (1u8, &b), (2u8, &a2)] {
            for src in FILTER_SRC {
                filters.push((id, src, s.parse(src).unwrap().compile()));
            }
            for src in VALUE_SRC {
                values.push((id, src, s.parse_value(src).unwrap().compile()));
            }
        }
        World { a, a2, b, filters, values }
    }
    fn scheme(&self, id: u8) -> &Scheme {
        match id {
            0 => &self.a,
            1 => &self.b,
            _ => &self.a2,
        }
    }
    fn build(&self, st: &State) -> Vec<ExecutionContext<'static>> {
        st.iter()
            .map(|mc| {
                let s = self.scheme(mc.sch);
                let mut ctx = ExecutionContext::new(s);
                for (f, v) in mc.vals.iter().enumerate() {
                    if let Some(v) = v {
                        ctx.set_field_value(s.get_field(FIELDS[f]).unwrap(), v.to_engine()).expect("well-typed state value");
                    }
                }
                ctx
            })
            .collect()
    }
}

fn same_scheme(ctx_sch: u8, via: u8) -> bool {
    // A (0) and its clone (2) are the same scheme; B (1) is distinct
    (ctx_sch == 1) == (via == 1)
}

/// Model value of the fixed filters / value expressions on a model context.
fn model_filter(src: &str, mc: &MC) -> bool {
    let n = mc.vals[0].as_ref();
    let s = mc.vals[1].as_ref();
    match src {
        "n == 1" => n == Some(&V::Int(1)),
        "s != \"a\"" => s.map(|v| *v != sb(b"a")).unwrap_or(true),
        "any(a[*] == 2)" => match &mc.vals[2] {
            Some(V::Arr(_, items)) => items.contains(&V::Int(2)),
            _ => false,
        },
        "m[\"k\"][0] == \"a\"" => match &mc.vals[3] {
            Some(V::Map(_, m)) => match m.get(&b"k"[..]) {
                Some(V::Arr(_, items)) => items.first() == Some(&sb(b"a")),
                _ => false,
            },
            _ => false,
        },
        _ => {
            let left = matches!(n, Some(V::Int(2)) | Some(V::Int(3)));
            let contains = match s {
                Some(V::Bytes(b)) => b.contains(&b'a'),
                _ => false, // absent: comparison false
            };
            left || !contains
        }
    }
}

fn model_value(src: &str, mc: &MC) -> Result<V, Ty> {
    match src {
        "a" => mc.vals[2].clone().ok_or(Ty::arr(Ty::Int)),
        "n" => mc.vals[0].clone().ok_or(Ty::Int),
        _ => match &mc.vals[3] {
            Some(V::Map(_, m)) => m.get(&b"k"[..]).cloned().ok_or(Ty::arr(Ty::Bytes)),
            _ => Err(Ty::arr(Ty::Bytes)),
        },
    }
}

/// Applies `op` to real contexts and to the model; returns the problems found at this step.
fn step(w: &World, real: &mut Vec<ExecutionContext<'static>>, st: &mut State, op: &Op) -> Vec<String> {
    let mut problems = Vec::new();
    let mut set_model = |mc: &mut MC, f: usize, v: &V, via_ok: bool| -> Result<Option<V>, ()> {
        if !via_ok || v.ty() != field_ty(f) {
            return Err(());
        }
        Ok(mc.vals[f].replace(v.clone()))
    };
    let cmp_set = |got: Result<Option<LhsValue<'_>>, wirefilter::SetFieldValueError>, want: &Result<Option<V>, ()>, what: &str, problems: &mut Vec<String>| {
        let got_m: Result<Option<V>, String> = got.map(|o| o.map(|v| V::from_engine(&v))).map_err(|e| e.to_string());
        let agree = match (&got_m, want) {
            (Ok(g), Ok(w)) => g == w,
            (Err(_), Err(())) => true,
            _ => false,
        };
        if !agree {
            problems.push(format!("{what}: engine {got_m:?}, reference {want:?}"));
        }
    };
    match op {
        Op::Set { c, f, v, via } => {
            let val = value_pool(*f)[*v].clone();
            let via_ok = same_scheme(st[*c].sch, *via);
            let want = set_model(&mut st[*c], *f, &val, via_ok);
            let field = w.scheme(*via).get_field(FIELDS[*f]).unwrap();
            let got = real[*c].set_field_value(field, val.to_engine());
            cmp_set(got, &want, &format!("set_field_value({}, {})", FIELDS[*f], val.short()), &mut problems);
        }
        Op::SetByName { c, name, f, v } => {
            let val = value_pool(*f)[*v].clone();
            let want = match FIELDS.iter().position(|n| n == name) {
                Some(fi) => set_model(&mut st[*c], fi, &val, true),
                None => Err(()),
            };
            let got = real[*c].set_field_value_from_name(name, val.to_engine());
            cmp_set(got, &want, &format!("set_field_value_from_name({name:?}, {})", val.short()), &mut problems);
        }
        Op::Clear { c } => {
            st[*c].vals = [None, None, None, None];
            real[*c].clear();
        }
        Op::CloneWith { c } => {
            let copy = st[*c].clone();
            st.push(copy);
            let rc = real[*c].clone_with(());
            if rc != real[*c] {
                problems.push("a fresh clone is not equal to its original".into());
            }
            real.push(rc);
        }
        Op::NewOnB => {
            st.push(MC { sch: 1, vals: [None, None, None, None] });
            real.push(ExecutionContext::new(&w.b));
        }
        Op::Take { c } => {
            let old = real.remove(*c);
            real.insert(*c, old.take_with(|()| ()));
        }
        Op::Borrow { c, sets } => {
            let mut guard = real[*c].borrow_with(7u8);
            for (f, v) in sets {
                let val = value_pool(*f)[*v].clone();
                let want = set_model(&mut st[*c], *f, &val, true);
                let got = guard.set_field_value_from_name(FIELDS[*f], val.to_engine());
                cmp_set(got, &want, &format!("(inside borrow_with) set {} = {}", FIELDS[*f], val.short()), &mut problems);
            }
            if *guard.get_user_data() != 7u8 {
                problems.push("borrow_with lost its user data".into());
            }
            drop(guard);
        }
        Op::BorrowUnwind { c, sets } => {
            // what was written through the guard before the panic is written through all the same
            let mut wants = Vec::new();
            for (f, v) in sets {
                let val = value_pool(*f)[*v].clone();
                wants.push((set_model(&mut st[*c], *f, &val, true), *f, val));
            }
            let ctx = &mut real[*c];
            let r = std::panic::catch_unwind(std::panic::AssertUnwindSafe(|| {
                let mut guard = ctx.borrow_with(7u8);
                let mut got = Vec::new();
                for (_, f, val) in &wants {
                    got.push(guard.set_field_value_from_name(FIELDS[*f], val.to_engine()).map(|o| o.map(|v| V::from_engine(&v))).map_err(|_| ()));
                }
                // unwinds through the guard without invoking the panic hook
                std::panic::resume_unwind(Box::new(got));
            }));
            match r {
                Ok(()) => problems.push("the unwinding borrow did not unwind".into()),
                Err(payload) => match payload.downcast::<Vec<Result<Option<V>, ()>>>() {
                    Ok(got) => {
                        for (g, (w, f, val)) in got.iter().zip(&wants) {
                            if g != w {
                                problems.push(format!("(inside an unwinding borrow_with) set {} = {}: engine {:?}, reference {:?}", FIELDS[*f], val.short(), g.as_ref().map(|o| o.as_ref().map(|v| v.short())), w.as_ref().map(|o| o.as_ref().map(|v| v.short()))));
                            }
                        }
                    }
                    Err(_) => problems.push("an unexpected panic inside the borrow".into()),
                },
            }
        }
        Op::DropSecond => {
            st.pop();
            real.pop();
        }
    }
    problems
}

/// Compares everything observable of the real contexts with the model; returns the state key.
fn observe(w: &World, real: &[ExecutionContext<'static>], st: &State, problems: &mut Vec<String>) -> String {
    let mut key = String::new();
    if real.len() != st.len() {
        problems.push("live context count differs".into());
    }
    for (i, (ctx, mc)) in real.iter().zip(st.iter()).enumerate() {
        let s = w.scheme(mc.sch);
        for f in 0..4 {
            let got = ctx.get_field_value(s.get_field(FIELDS[f]).unwrap()).map(V::from_engine);
            if got != mc.vals[f] {
                problems.push(format!("ctx{i}.get({}) = {:?}, reference {:?}", FIELDS[f], got.as_ref().map(|v| v.short()), mc.vals[f].as_ref().map(|v| v.short())));
            }
            if let Some(g) = &got {
                if !g.well_typed() || g.ty() != field_ty(f) {
                    problems.push(format!("ctx{i}.{} holds a value of type {} (declared {})", FIELDS[f], g.ty().short(), field_ty(f).short()));
                }
            }
        }
        key.push_str(&format!("{}|{}|", mc.sch, serde_json::to_string(ctx).unwrap_or_else(|e| format!("<{e}>"))));
        for (fid, src, flt) in &w.filters {
            let got = guarded(|| flt.execute(ctx).map_err(|_| ()));
            let want = if same_scheme(mc.sch, *fid) { Ok(model_filter(src, mc)) } else { Err(()) };
            if got != Ok(want) {
                problems.push(format!("ctx{i} (scheme {}) x filter {src:?} of scheme {fid}: engine {got:?}, reference {want:?}", mc.sch));
            }
        }
        for (fid, src, fv) in &w.values {
            let got = guarded(|| {
                fv.execute(ctx).map_err(|_| ()).map(|r| match r {
                    Ok(v) => Ok(V::from_engine(&v)),
                    Err(t) => Err(Ty::from_engine(t)),
                })
            });
            let want = if same_scheme(mc.sch, *fid) { Ok(model_value(src, mc)) } else { Err(()) };
            if got != Ok(want.clone()) {
                problems.push(format!("ctx{i} x value {src:?} of scheme {fid}: engine {got:?}, reference {want:?}"));
            }
        }
    }
    // equality of contexts follows the model
    if real.len() == 2 {
        let eq_model = st[0] == st[1];
        if (real[0] == real[1]) != eq_model {
            problems.push(format!("ctx0 == ctx1 is {}, reference {eq_model}", real[0] == real[1]));
        }
    }
    key
}

fn builders_check(run: &Run) {
    // Arrays and maps can only be built homogeneous.
    let pool: Vec<V> = vec![
        V::Int(1),
        sb(b"a"),
        V::Bool(true),
        V::arr(Ty::Int, vec![V::Int(1)]),
        V::arr(Ty::Int, vec![]),
        V::arr(Ty::Bytes, vec![]),
        V::arr(Ty::arr(Ty::Int), vec![]),
        V::map(Ty::Int, vec![]),
        V::map(Ty::Bytes, vec![(b"k", sb(b"v"))]),
    ];
    let elem_types = [Ty::Int, Ty::Bytes, Ty::arr(Ty::Int), Ty::arr(Ty::Bytes), Ty::map(Ty::Int), Ty::arr(Ty::arr(Ty::Int))];
    for et in &elem_types {
        for i in 0..pool.len() {
            for j in 0..pool.len() {
                for k in [None, Some(0usize), Some(3)] {
                    let mut elems = vec![pool[i].clone(), pool[j].clone()];
                    if let Some(k) = k {
                        elems.push(pool[k].clone());
                    }
                    let want_ok = elems.iter().all(|e| e.ty() == *et);
                    let r1 = guarded(|| Array::try_from_iter(et.to_engine(), elems.iter().map(|e| e.to_engine())).map(|a| V::from_engine(&LhsValue::Array(a))).map_err(|_| ()));
                    let r2 = guarded(|| Array::try_from_vec(et.to_engine(), elems.iter().map(|e| e.to_engine()).collect()).map(|a| V::from_engine(&LhsValue::Array(a))).map_err(|_| ()));
                    let r3 = guarded(|| {
                        Map::try_from_iter::<TypeMismatchError, _>(
                            et.to_engine(),
                            elems.iter().enumerate().map(|(n, e)| Ok((format!("k{n}").into_bytes().into_boxed_slice(), e.to_engine()))),
                        )
                        .map(|m| V::from_engine(&LhsValue::Map(m)))
                        .map_err(|_| ())
                    });
                    run.eval(3);
                    run.count("builder_cases", 3);
                    let want_arr = if want_ok { Ok(V::Arr(et.clone(), elems.clone())) } else { Err(()) };
                    let want_map: Result<V, ()> = if want_ok {
                        Ok(V::Map(et.clone(), elems.iter().enumerate().map(|(n, e)| (format!("k{n}").into_bytes(), e.clone())).collect::<BTreeMap<_, _>>()))
                    } else {
                        Err(())
                    };
                    for (name, got, want) in [("Array::try_from_iter", &r1, &want_arr), ("Array::try_from_vec", &r2, &want_arr), ("Map::try_from_iter", &r3, &want_map)] {
                        if *got != Ok(want.clone()) {
                            run.violation(
                                format!("{ID}:builder:{name}:{}:{:?}", et.short(), elems.iter().map(|e| e.ty().short()).collect::<Vec<_>>()),
                                format!("{name}({}, elements of types {:?}): engine {:?}, reference {:?}", et.short(), elems.iter().map(|e| e.ty().short()).collect::<Vec<_>>(), got, want.as_ref().map(|v| v.short())),
                                json!({"kind": "c08-builder", "elem_type": et, "elements": elems}),
                            );
                        }
                    }
                }
            }
        }
    }
}

/// Is every element of the value of the declared element type, at every level?
fn deeply_homogeneous(v: &LhsValue<'_>) -> bool {
    use wirefilter::GetType;
    match v {
        LhsValue::Array(a) => {
            let et = a.value_type();
            a.iter().all(|e| e.get_type() == et && deeply_homogeneous(e))
        }
        LhsValue::Map(m) => {
            let et = m.value_type();
            m.iter().all(|(_, e)| e.get_type() == et && deeply_homogeneous(e))
        }
        _ => true,
    }
}

/// The statically typed builders (`TypedArray`, `TypedMap`) nested in one another, one to three
/// levels, with 0..2 elements per level: the loosely typed value they convert into has the full
/// nested type, is homogeneous at every level and is accepted by exactly the field of that type.
fn typed_builders_check(run: &Run) {
    use wirefilter::{GetType, TypedArray, TypedMap};
    let mut b = SchemeBuilder::new();
    let a = |t: Ty| Ty::arr(t);
    let m = |t: Ty| Ty::map(t);
    let field_types: Vec<Ty> = vec![
        a(Ty::Int), a(Ty::Bool), a(Ty::Bytes), m(Ty::Int), m(Ty::Bytes),
        a(a(Ty::Int)), a(m(Ty::Int)), m(a(Ty::Int)), m(m(Ty::Int)), m(m(Ty::Bytes)),
        a(a(a(Ty::Int))), a(a(m(Ty::Bool))), a(m(a(Ty::Int))), a(m(m(Ty::Int))), m(a(m(Ty::Int))), m(m(a(Ty::Int))), m(a(a(Ty::Int))), m(m(m(Ty::Int))),
    ];
    for (i, t) in field_types.iter().enumerate() {
        b.add_optional_field(format!("f{i}"), t.to_engine()).expect("field");
    }
    let scheme = b.build();
    let key = |n: usize| format!("k{n}").into_bytes().into_boxed_slice();
    // (description, value, expected full type)
    let mut cases: Vec<(String, LhsValue<'static>, Ty)> = Vec::new();
    for n in 0..3usize {
        let ints = || (0..n as i64).collect::<TypedArray<'static, i64>>();
        let imap = || (0..n).map(|k| (key(k), k as i64)).collect::<TypedMap<'static, i64>>();
        let bmap = || (0..n).map(|k| (key(k), k % 2 == 0)).collect::<TypedMap<'static, bool>>();
        macro_rules! case {
            ($d:expr, $v:expr, $t:expr) => {
                cases.push((format!("{} with {n} element(s) per level", $d), LhsValue::from($v), $t));
            };
        }
        case!("TypedArray<i64>", wirefilter::Array::from(ints()), a(Ty::Int));
        case!("TypedArray<bool>", wirefilter::Array::from((0..n).map(|k| k % 2 == 1).collect::<TypedArray<'static, bool>>()), a(Ty::Bool));
        case!("TypedArray<&[u8]>", wirefilter::Array::from((0..n).map(|_| &b"v"[..]).collect::<TypedArray<'static, &'static [u8]>>()), a(Ty::Bytes));
        case!("TypedMap<i64>", wirefilter::Map::from(imap()), m(Ty::Int));
        case!("TypedMap<&[u8]>", wirefilter::Map::from((0..n).map(|k| (key(k), &b"v"[..])).collect::<TypedMap<'static, &'static [u8]>>()), m(Ty::Bytes));
        case!("TypedArray<TypedArray<i64>>", wirefilter::Array::from((0..n).map(|_| ints()).collect::<TypedArray<'static, TypedArray<'static, i64>>>()), a(a(Ty::Int)));
        case!("TypedArray<TypedMap<i64>>", wirefilter::Array::from((0..n).map(|_| imap()).collect::<TypedArray<'static, TypedMap<'static, i64>>>()), a(m(Ty::Int)));
        case!("TypedMap<TypedArray<i64>>", wirefilter::Map::from((0..n).map(|k| (key(k), ints())).collect::<TypedMap<'static, TypedArray<'static, i64>>>()), m(a(Ty::Int)));
        case!("TypedMap<TypedMap<i64>>", wirefilter::Map::from((0..n).map(|k| (key(k), imap())).collect::<TypedMap<'static, TypedMap<'static, i64>>>()), m(m(Ty::Int)));
        case!("TypedMap<TypedMap<&[u8]>>", wirefilter::Map::from((0..n).map(|k| (key(k), (0..n).map(|j| (key(j), &b"v"[..])).collect::<TypedMap<'static, &'static [u8]>>())).collect::<TypedMap<'static, TypedMap<'static, &'static [u8]>>>()), m(m(Ty::Bytes)));
        case!("TypedArray<TypedArray<TypedArray<i64>>>", wirefilter::Array::from((0..n).map(|_| (0..n).map(|_| ints()).collect::<TypedArray<'static, TypedArray<'static, i64>>>()).collect::<TypedArray<'static, TypedArray<'static, TypedArray<'static, i64>>>>()), a(a(a(Ty::Int))));
        case!("TypedArray<TypedArray<TypedMap<bool>>>", wirefilter::Array::from((0..n).map(|_| (0..n).map(|_| bmap()).collect::<TypedArray<'static, TypedMap<'static, bool>>>()).collect::<TypedArray<'static, TypedArray<'static, TypedMap<'static, bool>>>>()), a(a(m(Ty::Bool))));
        case!("TypedArray<TypedMap<TypedArray<i64>>>", wirefilter::Array::from((0..n).map(|_| (0..n).map(|k| (key(k), ints())).collect::<TypedMap<'static, TypedArray<'static, i64>>>()).collect::<TypedArray<'static, TypedMap<'static, TypedArray<'static, i64>>>>()), a(m(a(Ty::Int))));
        case!("TypedArray<TypedMap<TypedMap<i64>>>", wirefilter::Array::from((0..n).map(|_| (0..n).map(|k| (key(k), imap())).collect::<TypedMap<'static, TypedMap<'static, i64>>>()).collect::<TypedArray<'static, TypedMap<'static, TypedMap<'static, i64>>>>()), a(m(m(Ty::Int))));
        case!("TypedMap<TypedArray<TypedMap<i64>>>", wirefilter::Map::from((0..n).map(|k| (key(k), (0..n).map(|_| imap()).collect::<TypedArray<'static, TypedMap<'static, i64>>>())).collect::<TypedMap<'static, TypedArray<'static, TypedMap<'static, i64>>>>()), m(a(m(Ty::Int))));
        case!("TypedMap<TypedMap<TypedArray<i64>>>", wirefilter::Map::from((0..n).map(|k| (key(k), (0..n).map(|j| (key(j), ints())).collect::<TypedMap<'static, TypedArray<'static, i64>>>())).collect::<TypedMap<'static, TypedMap<'static, TypedArray<'static, i64>>>>()), m(m(a(Ty::Int))));
        case!("TypedMap<TypedArray<TypedArray<i64>>>", wirefilter::Map::from((0..n).map(|k| (key(k), (0..n).map(|_| ints()).collect::<TypedArray<'static, TypedArray<'static, i64>>>())).collect::<TypedMap<'static, TypedArray<'static, TypedArray<'static, i64>>>>()), m(a(a(Ty::Int))));
        case!("TypedMap<TypedMap<TypedMap<i64>>>", wirefilter::Map::from((0..n).map(|k| (key(k), (0..n).map(|j| (key(j), imap())).collect::<TypedMap<'static, TypedMap<'static, i64>>>())).collect::<TypedMap<'static, TypedMap<'static, TypedMap<'static, i64>>>>()), m(m(m(Ty::Int))));
    }
    // the same builders driven through their incremental interface (new, push, extend, insert,
    // get_mut, get_or_insert, truncate), observed through the borrowed view and after conversion
    {
        let ints = |v: &[i64]| V::Arr(Ty::Int, v.iter().map(|i| V::Int(*i)).collect());
        let imapv = |v: &[(&[u8], i64)]| V::map(Ty::Int, v.iter().map(|(k, i)| (*k, V::Int(*i))).collect());
        let mut incremental: Vec<(String, Result<(V, V), String>, V)> = Vec::new();
        incremental.push(("TypedArray<TypedArray<i64>> built with push / get_mut / extend / truncate".into(), guarded(|| {
            let mut aa: TypedArray<'static, TypedArray<'static, i64>> = TypedArray::new();
            aa.push([1i64, 2].into_iter().collect());
            aa.push(TypedArray::new());
            aa.get_mut(1).expect("second element").push(7);
            aa.extend([[3i64].into_iter().collect::<TypedArray<'static, i64>>(), [4i64].into_iter().collect()]);
            aa.truncate(3);
            let view = V::from_engine(&LhsValue::Array(aa.as_array()));
            let conv = V::from_engine(&LhsValue::Array(wirefilter::Array::from(aa)));
            (view, conv)
        }), V::arr(a(Ty::Int), vec![ints(&[1, 2]), ints(&[7]), ints(&[3])])));
        incremental.push(("TypedArray<TypedMap<i64>> built with push / get_mut / insert".into(), guarded(|| {
            let mut am: TypedArray<'static, TypedMap<'static, i64>> = TypedArray::new();
            am.push([(key(0), 0i64)].into_iter().collect());
            am.get_mut(0).expect("first element").insert(key(1), 5);
            am.push(TypedMap::new());
            let view = V::from_engine(&LhsValue::Array(am.as_array()));
            let conv = V::from_engine(&LhsValue::Array(wirefilter::Array::from(am)));
            (view, conv)
        }), V::arr(m(Ty::Int), vec![imapv(&[(b"k0", 0), (b"k1", 5)]), imapv(&[])])));
        incremental.push(("TypedMap<TypedArray<i64>> built with get_or_insert / get_mut / push".into(), guarded(|| {
            let mut ma: TypedMap<'static, TypedArray<'static, i64>> = TypedMap::new();
            ma.get_or_insert(key(0), TypedArray::new()).push(4);
            ma.get_or_insert(key(0), [9i64].into_iter().collect()).push(5);
            ma.get_mut(b"k0").expect("present key").push(6);
            ma.insert(key(1), TypedArray::new());
            let view = V::from_engine(&LhsValue::Map(ma.as_map()));
            let conv = V::from_engine(&LhsValue::Map(wirefilter::Map::from(ma)));
            (view, conv)
        }), V::map(a(Ty::Int), vec![(b"k0", ints(&[4, 5, 6])), (b"k1", ints(&[]))])));
        incremental.push(("TypedMap<TypedMap<i64>> built with get_or_insert / get_mut / insert".into(), guarded(|| {
            let mut mm: TypedMap<'static, TypedMap<'static, i64>> = TypedMap::new();
            mm.get_or_insert(key(0), TypedMap::new()).insert(key(1), 1);
            mm.get_mut(b"k0").expect("present key").insert(key(2), 2);
            mm.get_or_insert(key(0), [(key(9), 9i64)].into_iter().collect()).insert(key(3), 3);
            let view = V::from_engine(&LhsValue::Map(mm.as_map()));
            let conv = V::from_engine(&LhsValue::Map(wirefilter::Map::from(mm)));
            (view, conv)
        }), V::map(m(Ty::Int), vec![(b"k0", imapv(&[(b"k1", 1), (b"k2", 2), (b"k3", 3)]))])));
        for (what, got, want) in incremental {
            run.eval(1);
            run.count("typed_builder_cases", 1);
            if got != Ok((want.clone(), want.clone())) {
                run.violation(
                    format!("{ID}:typed-builder:{what}"),
                    format!("{what}: borrowed view / converted value {:?}, reference {}", got.as_ref().map(|(x, y)| (x.short(), y.short())), want.short()),
                    json!({"kind": "c08-builder", "typed": what}),
                );
            }
        }
    }
    for (what, value, want_ty) in &cases {
        run.eval(1);
        run.count("typed_builder_cases", 1);
        let got_ty = Ty::from_engine(value.get_type());
        let mut problems = Vec::new();
        if got_ty != *want_ty {
            problems.push(format!("its type is {}, expected {}", got_ty.short(), want_ty.short()));
        }
        if !deeply_homogeneous(value) {
            problems.push("an element's type differs from the declared element type of its container".to_string());
        }
        // accepted by exactly the field of its type
        for (i, ft) in field_types.iter().enumerate() {
            let mut ctx = ExecutionContext::<()>::new(&scheme);
            let f = scheme.get_field(&format!("f{i}")).expect("field");
            let r = guarded(|| ctx.set_field_value(f, value.clone()).is_ok());
            run.eval(1);
            match r {
                Err(p) => problems.push(format!("setting it into a field of type {} panicked: {p}", ft.short())),
                Ok(ok) => {
                    if ok != (ft == want_ty) {
                        problems.push(format!("setting it into a field of type {} {}", ft.short(), if ok { "succeeded" } else { "failed" }));
                    } else if ok {
                        let stored = ctx.get_field_value(f).map(|v| deeply_homogeneous(v) && Ty::from_engine(v.get_type()) == *ft);
                        if stored != Some(true) {
                            problems.push(format!("the value stored in the field of type {} is not of that type throughout", ft.short()));
                        }
                    }
                }
            }
        }
        for p in problems {
            run.violation(format!("{ID}:typed-builder:{what}:{}", p.split(':').next().unwrap_or("")), format!("{what}: {p}"), json!({"kind": "c08-builder", "typed": what}));
        }
    }
}

pub fn run(tier: Tier, seed: u64) -> i32 {
    let run = Run::new(ID, "model_checking", tier, seed);
    run.assume("a context's observable state is its serialisation plus the scheme it is bound to; states with equal observations are merged");
    builders_check(&run);
    typed_builders_check(&run);
    let w = World::new();
    let max_depth = tier.pick(5usize, 64usize);
    let init: State = vec![MC { sch: 0, vals: [None, None, None, None] }];
    let mut seen: HashMap<String, ()> = HashMap::new();
    // a frontier state carries the history that first reached it: its contexts are obtained by
    // replaying that history on live contexts from the initial state, not by constructing contexts
    // that merely hold the state's values
    let mut frontier: Vec<(State, Vec<Op>)> = vec![(init.clone(), vec![])];
    {
        let real = w.build(&init);
        let mut p = Vec::new();
        seen.insert(observe(&w, &real, &init, &mut p), ());
    }
    let mut states = 1u64;
    let mut transitions = 0u64;
    let mut failed_sets = 0u64;
    let mut depth_reached = 0;
    let mut fixpoint = false;
    for depth in 1..=max_depth {
        if frontier.is_empty() {
            fixpoint = true;
            break;
        }
        depth_reached = depth;
        let out: Mutex<Vec<((State, Vec<Op>), String, bool)>> = Mutex::new(Vec::new());
        let fr = &frontier;
        par_for(fr.len(), ncpu(), |fi| {
            // each worker thread parses its own filters (compiled filters are Sync, but cheap to share): use the shared world
            let base = &fr[fi].0;
            let path = &fr[fi].1;
            let mut local = Vec::new();
            for op in ops_for(base) {
                let mut st = base.clone();
                let r = guarded(|| {
                    let mut real = w.build(&init);
                    let mut replayed = init.clone();
                    for past in path {
                        let _ = step(&w, &mut real, &mut replayed, past);
                    }
                    if replayed != *base {
                        return (vec![format!("replaying the history {path:?} gives the reference state {}, not {}", short_state(&replayed), short_state(base))], String::new());
                    }
                    let mut problems = step(&w, &mut real, &mut st, &op);
                    let key = observe(&w, &real, &st, &mut problems);
                    (problems, key)
                });
                match r {
                    Err(p) => run.violation(
                        format!("{ID}:panic:{op:?}"),
                        format!("after {path:?} (state {base:?}): {op:?} panicked: {p}"),
                        json!({"kind": "c08-step", "state": base, "history": path, "op": op}),
                    ),
                    Ok((problems, key)) => {
                        let failed = problems.is_empty() && st == *base && matches!(op, Op::Set { .. } | Op::SetByName { .. });
                        for p in problems {
                            run.violation(
                                format!("{ID}:step:{op:?}:{p}"),
                                format!("after {path:?} (state {}): {op:?}: {p}", short_state(base)),
                                json!({"kind": "c08-step", "state": base, "history": path, "op": op, "what": p}),
                            );
                        }
                        let mut np = path.clone();
                        np.push(op.clone());
                        local.push(((st, np), key, failed));
                    }
                }
            }
            out.lock().unwrap().extend(local);
        });
        let mut res = out.into_inner().unwrap();
        res.sort_by(|a, b| a.0.0.cmp(&b.0.0).then(a.1.cmp(&b.1)).then(format!("{:?}", a.0.1).cmp(&format!("{:?}", b.0.1))));
        let mut next = Vec::new();
        for ((st, np), key, failed) in res {
            transitions += 1;
            if failed {
                failed_sets += 1;
            }
            if !seen.contains_key(&key) {
                seen.insert(key.clone(), ());
                states += 1;
                if states % 1500 == 2 {
                    run.sample(8, || json!({"state": short_state(&st), "observed_key": key}));
                }
                next.push((st, np));
            }
        }
        run.note(format!("depth {depth}: {} new states, {transitions} transitions", next.len()));
        frontier = next;
    }
    run.eval(transitions);
    run.set("states", json!(states));
    run.set("transitions", json!(transitions));
    run.set("traces_validated_against_impl", json!(transitions));
    run.set("bounds", json!({"depth_reached": depth_reached, "fixpoint": fixpoint, "max_live_contexts": 2, "fields": FIELDS, "filters": FILTER_SRC, "value_expressions": VALUE_SRC}));
    run.count("states", states);
    run.count("failed_sets_leaving_state_unchanged", failed_sets);
    run.sample(8, || json!({"op": "Set{c:0,f:2,v:2,via:0}", "meaning": "ctx0.set_field_value(a, [\"a\"]: Array(Bytes)) must fail and change nothing"}));
    run.finish(
        states,
        "explicit-state BFS over {set by field ref of 3 schemes, set by name, clear, clone_with, new context on the twin scheme, take_with, borrow_with{1-2 sets}drop, drop}; every transition executed on live contexts brought to the state by replaying the history that first reached it, every field read back, every filter / value expression of all three schemes executed on every context, equality and serialisation compared with the reference map; builders over ill-typed element pools",
        fixpoint,
        &[("states", 50), ("failed_sets_leaving_state_unchanged", 100), ("builder_cases", 1000)],
    )
}

fn short_state(st: &State) -> String {
    st.iter()
        .map(|mc| {
            format!(
                "{}{{{}}}",
                if mc.sch == 0 { "A" } else { "B" },
                mc.vals.iter().enumerate().filter_map(|(i, v)| v.as_ref().map(|v| format!("{}={}", FIELDS[i], v.short()))).collect::<Vec<_>>().join(",")
            )
        })
        .collect::<Vec<_>>()
        .join(" ; ")
}

pub fn replay(case: &serde_json::Value) -> Result<u64, String> {
    if case["kind"] == "c08-builder" {
        let run = Run::new("replay", "model_checking", Tier::Quick, 0);
        builders_check(&run);
        typed_builders_check(&run);
        return Ok(run.violations_seen());
    }
    let st: State = serde_json::from_value(case["state"].clone()).map_err(|e| e.to_string())?;
    let op: Op = serde_json::from_value(case["op"].clone()).map_err(|e| e.to_string())?;
    let w = World::new();
    // the recorded history (when present) is replayed on live contexts from the initial state,
    // exactly as the explorer reached the state
    let history: Option<Vec<Op>> = case.get("history").and_then(|h| serde_json::from_value(h.clone()).ok());
    let init: State = vec![MC { sch: 0, vals: [None, None, None, None] }];
    let (mut real, mut m) = match &history {
        Some(h) => {
            let mut real = w.build(&init);
            let mut m = init.clone();
            for past in h {
                let _ = step(&w, &mut real, &mut m, past);
            }
            (real, m)
        }
        None => (w.build(&st), st.clone()),
    };
    let r = guarded(|| {
        let mut problems = step(&w, &mut real, &mut m, &op);
        observe(&w, &real, &m, &mut problems);
        problems
    });
    match r {
        Err(p) => {
            eprintln!("panic: {p}");
            Ok(1)
        }
        Ok(problems) => {
            for p in &problems {
                eprintln!("{p}");
            }
            Ok(problems.len() as u64)
        }
    }
}
