//! C20 — the C API mirrors the Rust API and reports failures via status and last-error
//! (shape P: parity over programs / contexts; shape H: last-error histories; shape S: two threads).

use crate::ast::render;
use crate::corpus;
use crate::ev::{Run, Tier, guarded};
use crate::sched;
use crate::uni::{MCtx, Uni, fn_spec};
use crate::val::{Ty, V};
use serde::{Deserialize, Serialize};
use serde_json::json;
use std::collections::HashSet;
use std::ffi::{CStr, c_char};
use std::hash::Hasher;
use std::net::IpAddr;
use wirefilter_ffi as ffi;
use wirefilter_ffi::Status;

pub const ID: &str = "C20";

fn c_universe() -> Uni {
    // every field mandatory: the C API can only add mandatory fields
    let fields: Vec<(&str, Ty, bool)> = vec![
        ("i", Ty::Int, false),
        ("s", Ty::Bytes, false),
        ("ip", Ty::Ip, false),
        ("t", Ty::Bool, false),
        ("u", Ty::Bool, false),
        ("xi", Ty::arr(Ty::Int), false),
        ("xs", Ty::arr(Ty::Bytes), false),
        ("xb", Ty::arr(Ty::Bool), false),
        ("yb", Ty::arr(Ty::Bool), false),
        ("ms", Ty::map(Ty::Bytes), false),
        ("xxi", Ty::arr(Ty::arr(Ty::Int)), false),
        ("mxi", Ty::map(Ty::arr(Ty::Int)), false),
    ];
    let mut u = Uni::new(&fields, &["idb", "len", "up", "nie", "opt", "lit", "cat2", "pick", "cnt", "inc", "isb", "fb", "fa", "sum", "concat", "ctxfn", "boom"], true);
    u.lists = vec![(Ty::Int, crate::uni::ListKind::Always), (Ty::Bytes, crate::uni::ListKind::Never), (Ty::Ip, crate::uni::ListKind::Always)];
    u
}

fn ctype(t: &Ty) -> ffi::CType {
    ffi::CType::from(t.to_engine())
}

/// Builds the scheme through the exported functions (fields, lists); functions through the Rust builder it wraps.
fn c_scheme(u: &Uni) -> Box<ffi::Scheme> {
    let mut b = ffi::wirefilter_create_scheme_builder();
    for (n, t, _) in &u.fields {
        assert!(ffi::wirefilter_add_type_field_to_scheme(&mut b, n.as_ptr().cast(), n.len(), ctype(t)));
    }
    for (t, k) in &u.lists {
        match k {
            crate::uni::ListKind::Always => assert!(ffi::wirefilter_add_always_list_to_scheme(&mut b, ctype(t))),
            _ => assert!(ffi::wirefilter_add_never_list_to_scheme(&mut b, ctype(t))),
        }
    }
    // no C entry point registers functions: use the Rust builder the C builder wraps for that
    for f in &u.funcs {
        register_function(&mut b, f);
    }
    ffi::wirefilter_build_scheme(b)
}

fn register_function(b: &mut ffi::SchemeBuilder, f: &crate::uni::FnSpec) {
    use wirefilter::{SimpleFunctionArgKind, SimpleFunctionDefinition, SimpleFunctionImpl, SimpleFunctionOptParam, SimpleFunctionParam};
    let kind = |k: crate::uni::Kind| match k {
        crate::uni::Kind::Field => SimpleFunctionArgKind::Field,
        crate::uni::Kind::Literal => SimpleFunctionArgKind::Literal,
        crate::uni::Kind::Both => SimpleFunctionArgKind::Both,
    };
    match f.special {
        Some(crate::uni::Special::Concat) => b.add_function(f.name, wirefilter::ConcatFunction::new()).unwrap(),
        Some(crate::uni::Special::CtxFn) => b.add_function(f.name, crate::ctxfn::CtxFn).unwrap(),
        Some(crate::uni::Special::Panicky) => b.add_function(f.name, crate::ctxfn::Panicky).unwrap(),
        None => b
            .add_function(
                f.name,
                SimpleFunctionDefinition {
                    params: f.params.iter().map(|(k, t)| SimpleFunctionParam { arg_kind: kind(*k), val_type: t.to_engine() }).collect(),
                    opt_params: f.opts.iter().map(|(k, v)| SimpleFunctionOptParam { arg_kind: kind(*k), default_value: v.to_engine() }).collect(),
                    return_type: f.ret.to_engine(),
                    implementation: SimpleFunctionImpl::new(f.real.unwrap()),
                },
            )
            .unwrap(),
    }
}

/// The calling thread's last error as bytes (None = NULL). Checks the C-string shape.
fn last_error() -> Result<Option<Vec<u8>>, String> {
    let p = ffi::wirefilter_get_last_error();
    if p.is_null() {
        return Ok(None);
    }
    let bytes = unsafe { CStr::from_ptr(p) }.to_bytes().to_vec();
    Ok(Some(bytes))
}

fn nul_substituted(s: &str) -> Vec<u8> {
    s.bytes().map(|b| if b == 0 { 0x1a } else { b }).collect()
}

fn rust_string(r: ffi::SerializingResult) -> Result<String, ()> {
    if r.status != Status::Success || r.json.ptr.is_null() {
        return Err(());
    }
    let bytes = unsafe { std::slice::from_raw_parts(r.json.ptr.cast::<u8>(), r.json.len) };
    Ok(String::from_utf8_lossy(bytes).to_string())
}

fn fnv(s: &str) -> u64 {
    let mut h = fnv::FnvHasher::default();
    h.write(s.as_bytes());
    h.finish()
}

fn contexts() -> Vec<MCtx> {
    let sb = |s: &[u8]| V::Bytes(s.to_vec());
    let mk = |i: i64, s: &[u8], ip: &str, t: bool, xi: &[i64], xs: &[&[u8]]| -> MCtx {
        let mut m = MCtx::new();
        m.insert("i".into(), V::Int(i));
        m.insert("s".into(), sb(s));
        m.insert("ip".into(), V::Ip(ip.parse().unwrap()));
        m.insert("t".into(), V::Bool(t));
        m.insert("u".into(), V::Bool(!t));
        m.insert("xi".into(), V::Arr(Ty::Int, xi.iter().map(|x| V::Int(*x)).collect()));
        m.insert("xs".into(), V::Arr(Ty::Bytes, xs.iter().map(|x| sb(x)).collect()));
        m.insert("xb".into(), V::Arr(Ty::Bool, vec![V::Bool(t), V::Bool(false)]));
        m.insert("yb".into(), V::Arr(Ty::Bool, vec![V::Bool(true)]));
        m.insert("ms".into(), V::map(Ty::Bytes, vec![(b"a", sb(s)), (b"\xff", sb(b"x"))]));
        m.insert("xxi".into(), V::arr(Ty::arr(Ty::Int), vec![V::Arr(Ty::Int, xi.iter().map(|x| V::Int(*x)).collect()), V::Arr(Ty::Int, vec![])]));
        m.insert("mxi".into(), V::map(Ty::arr(Ty::Int), vec![(b"a", V::Arr(Ty::Int, vec![V::Int(i)]))]));
        m
    };
    vec![
        mk(1, b"a", "1.2.3.4", true, &[1, 2, 3], &[b"a", b"b"]),
        mk(i64::MIN, b"", "::1", false, &[], &[]),
        mk(7, b"ab\xff\x00", "10.1.2.3", true, &[2], &[b"", b"ab"]),
    ]
}

/// Fills a C context through the typed setters (scalars) and the JSON setter (containers).
fn fill_c_ctx(ctx: &mut ffi::ExecutionContext<'_>, m: &MCtx) -> Result<(), String> {
    for (name, v) in m {
        let (np, nl) = (name.as_ptr().cast::<c_char>(), name.len());
        let ok = match v {
            V::Int(i) => ffi::wirefilter_add_int_value_to_execution_context(ctx, np, nl, *i),
            V::Bool(b) => ffi::wirefilter_add_bool_value_to_execution_context(ctx, np, nl, *b),
            V::Bytes(b) => ffi::wirefilter_add_bytes_value_to_execution_context(ctx, np, nl, b.as_ptr(), b.len()),
            V::Ip(IpAddr::V4(a)) => ffi::wirefilter_add_ipv4_value_to_execution_context(ctx, np, nl, &a.octets()),
            V::Ip(IpAddr::V6(a)) => ffi::wirefilter_add_ipv6_value_to_execution_context(ctx, np, nl, &a.octets()),
            other => {
                let js = serde_json::to_string(&other.to_engine()).map_err(|e| e.to_string())?;
                ffi::wirefilter_add_json_value_to_execution_context(ctx, np, nl, js.as_ptr(), js.len())
            }
        };
        if !ok {
            return Err(format!("setter for {name} failed: {:?}", last_error()));
        }
    }
    Ok(())
}

fn leak_str(s: String) -> &'static str {
    Box::leak(s.into_boxed_str())
}

/// Parity of one filter text between the two APIs. Returns problems.
fn parity(u: &Uni, rs: &wirefilter::Scheme, cs: &ffi::Scheme, text: &[u8], mctxs: &[MCtx]) -> Vec<String> {
    let mut problems = Vec::new();
    ffi::wirefilter_clear_last_error();
    let res = ffi::wirefilter_parse_filter(cs, text.as_ptr().cast(), text.len());
    let rust = std::str::from_utf8(text).map(|t| rs.parse(t).map_err(|e| e.to_string()));
    match (&rust, res.status, res.ast) {
        (Err(utf8), Status::Error, None) => {
            if last_error().ok().flatten() != Some(nul_substituted(&utf8.to_string())) {
                problems.push(format!("invalid UTF-8 input: last error {:?}, expected {:?}", last_error(), utf8.to_string()));
            }
        }
        (Ok(Err(e)), Status::Error, None) => match last_error() {
            Ok(Some(le)) if le == nul_substituted(e) => {}
            other => problems.push(format!("parse error text differs: last error {:?}, Rust error {e:?}", other.map(|o| o.map(|b| String::from_utf8_lossy(&b).to_string())))),
        },
        (Ok(Ok(rast)), Status::Success, Some(cast)) => {
            if last_error() != Ok(None) {
                problems.push("a successful parse wrote a last error".into());
            }
            let want_js = serde_json::to_string(rast).unwrap_or_default();
            match rust_string(ffi::wirefilter_serialize_filter_to_json(&cast)) {
                Ok(js) if js == want_js => {}
                other => problems.push(format!("filter JSON differs: {other:?} vs {want_js}")),
            }
            let h = ffi::wirefilter_get_filter_hash(&cast);
            if h.status != Status::Success || h.hash != fnv(&want_js) {
                problems.push(format!("hash {:?}/{} is not the FNV hash of the JSON ({})", h.status, h.hash, fnv(&want_js)));
            }
            for (n, _, _) in &u.fields {
                let cu = ffi::wirefilter_filter_uses(&cast, n.as_ptr().cast(), n.len());
                let cl = ffi::wirefilter_filter_uses_list(&cast, n.as_ptr().cast(), n.len());
                if cu.status != Status::Success || Ok(cu.used) != rast.uses(n) {
                    problems.push(format!("uses({n}) differs: {:?}/{} vs {:?}", cu.status, cu.used, rast.uses(n)));
                }
                if cl.status != Status::Success || Ok(cl.used) != rast.uses_list(n) {
                    problems.push(format!("uses_list({n}) differs: {:?}/{} vs {:?}", cl.status, cl.used, rast.uses_list(n)));
                }
            }
            for bad in ["nope", "I", ""] {
                ffi::wirefilter_clear_last_error();
                let cu = ffi::wirefilter_filter_uses(&cast, bad.as_ptr().cast(), bad.len());
                let want = rast.uses(bad).unwrap_err().to_string();
                if cu.status != Status::Error || last_error().ok().flatten() != Some(want.clone().into_bytes()) {
                    problems.push(format!("uses({bad:?}) on an unknown name: {:?}, last error {:?}, expected error {want:?}", cu.status, last_error()));
                }
                ffi::wirefilter_clear_last_error();
                let cl = ffi::wirefilter_filter_uses_list(&cast, bad.as_ptr().cast(), bad.len());
                if cl.status != Status::Error || last_error().ok().flatten() != Some(want.clone().into_bytes()) {
                    problems.push(format!("uses_list({bad:?}) on an unknown name: {:?}, last error {:?}", cl.status, last_error()));
                }
            }
            // compile + match on every context, both APIs
            ffi::wirefilter_clear_last_error();
            let compiled = ffi::wirefilter_compile_filter(cast);
            match (compiled.status, compiled.filter) {
                (Status::Success, Some(cf)) => {
                    let rf = rast.clone().compile();
                    for m in mctxs {
                        let rctx = crate::uni::real_ctx(rs, m);
                        let mut cctx = ffi::wirefilter_create_execution_context(cs);
                        if let Err(e) = fill_c_ctx(&mut cctx, m) {
                            problems.push(e);
                            continue;
                        }
                        let want = rf.execute(&rctx);
                        let got = ffi::wirefilter_match(&cf, &cctx);
                        if got.status != Status::Success || Ok(got.matched) != want {
                            problems.push(format!("match differs: {:?}/{} vs {want:?}", got.status, got.matched));
                        }
                        let want_ctx = serde_json::to_string(&rctx).unwrap_or_default();
                        match rust_string(ffi::wirefilter_serialize_execution_context_to_json(&mut cctx)) {
                            Ok(js) if js == want_ctx => {}
                            other => problems.push(format!("context JSON differs: {other:?} vs {want_ctx}")),
                        }
                    }
                }
                (st, _) => problems.push(format!("compile failed with {st:?}: {:?}", last_error())),
            }
        }
        (r, st, ast) => problems.push(format!("parse outcome differs: C status {st:?} (ast {}), Rust {:?}", ast.is_some(), r.as_ref().map(|x| x.as_ref().map(|_| "ast").map_err(|e| e.lines().last().unwrap_or("").to_string())))),
    }
    problems
}

// ---------------------------------------------------------------------------------------------
// last-error histories

#[derive(Clone, Copy, Debug, PartialEq, Eq, Hash, PartialOrd, Ord, Serialize, Deserialize)]
pub enum Call {
    ParseOk,
    ParseErr,
    ParseErrWithNul,
    ParseBadUtf8,
    SetIntOk,
    SetIntUnknownField,
    SetIntWrongType,
    SetBytesBadName,
    DeserializeBadJson,
    UsesUnknown,
    MatchSchemeMismatch,
    MatchOk,
    AddDuplicateField,
    AddDuplicateList,
    BadFallbackMode,
    GetVersion,
    Clear,
    /// one exported value setter on one of its outcomes
    Set(Setter, SetCase),
    AddFieldBadName,
    UsesBadName,
    UsesListUnknown,
    UsesListBadName,
    DeserializeUnknownField,
    DeserializeTruncated,
}

#[derive(Clone, Copy, Debug, PartialEq, Eq, Hash, PartialOrd, Ord, Serialize, Deserialize)]
pub enum Setter {
    Int,
    Bytes,
    Ipv4,
    Ipv6,
    Bool,
    Json,
}

#[derive(Clone, Copy, Debug, PartialEq, Eq, Hash, PartialOrd, Ord, Serialize, Deserialize)]
pub enum SetCase {
    Ok,
    UnknownField,
    /// a registered field of another type (JSON setter: a document of another type)
    WrongType,
    /// the name is not UTF-8
    BadName,
}

/// The core alphabet plus every failure path of every exported function that has one.
fn all_calls() -> Vec<Call> {
    let mut v = CALLS.to_vec();
    for st in [Setter::Int, Setter::Bytes, Setter::Ipv4, Setter::Ipv6, Setter::Bool, Setter::Json] {
        for case in [SetCase::Ok, SetCase::UnknownField, SetCase::WrongType, SetCase::BadName] {
            v.push(Call::Set(st, case));
        }
    }
    v.extend([Call::AddFieldBadName, Call::UsesBadName, Call::UsesListUnknown, Call::UsesListBadName, Call::DeserializeUnknownField, Call::DeserializeTruncated]);
    v
}

const CALLS: [Call; 17] = [
    Call::ParseOk,
    Call::ParseErr,
    Call::ParseErrWithNul,
    Call::ParseBadUtf8,
    Call::SetIntOk,
    Call::SetIntUnknownField,
    Call::SetIntWrongType,
    Call::SetBytesBadName,
    Call::DeserializeBadJson,
    Call::UsesUnknown,
    Call::MatchSchemeMismatch,
    Call::MatchOk,
    Call::AddDuplicateField,
    Call::AddDuplicateList,
    Call::BadFallbackMode,
    Call::GetVersion,
    Call::Clear,
];

struct Fixture {
    rs: wirefilter::Scheme,
    cs: Box<ffi::Scheme>,
    other: Box<ffi::Scheme>,
}

fn fixture() -> Fixture {
    let u = c_universe();
    Fixture { rs: u.build(), cs: c_scheme(&u), other: c_scheme(&u) }
}

/// Performs one call; returns (reported failure?, the error text the Rust API gives for the same input).
fn perform(fx: &Fixture, c: Call) -> (bool, Option<String>) {
    match c {
        Call::ParseOk => {
            let t = "i == 1";
            let r = ffi::wirefilter_parse_filter(&fx.cs, t.as_ptr().cast(), t.len());
            (r.status != Status::Success, None)
        }
        Call::ParseErr => {
            let t = "i == \"x\" and\n t";
            let r = ffi::wirefilter_parse_filter(&fx.cs, t.as_ptr().cast(), t.len());
            (r.status == Status::Error && r.ast.is_none(), Some(fx.rs.parse(t).unwrap_err().to_string()))
        }
        Call::ParseErrWithNul => {
            let t = "\0i == 1 \0&& \0";
            let r = ffi::wirefilter_parse_filter(&fx.cs, t.as_ptr().cast(), t.len());
            (r.status == Status::Error && r.ast.is_none(), Some(fx.rs.parse(t).unwrap_err().to_string()))
        }
        Call::ParseBadUtf8 => {
            let t: &[u8] = b"s == \"\xff\xfe\"";
            let r = ffi::wirefilter_parse_filter(&fx.cs, t.as_ptr().cast(), t.len());
            (r.status == Status::Error && r.ast.is_none(), Some(std::str::from_utf8(t).unwrap_err().to_string()))
        }
        Call::SetIntOk | Call::SetIntUnknownField | Call::SetIntWrongType | Call::SetBytesBadName => {
            let mut ctx = ffi::wirefilter_create_execution_context(&fx.cs);
            let mut rctx = wirefilter::ExecutionContext::<()>::new(&fx.rs);
            match c {
                Call::SetIntOk => (!ffi::wirefilter_add_int_value_to_execution_context(&mut ctx, "i".as_ptr().cast(), 1, 5), None),
                Call::SetIntUnknownField => {
                    let n = "no\0pe";
                    let want = rctx.set_field_value_from_name(n, 5i64).unwrap_err().to_string();
                    (!ffi::wirefilter_add_int_value_to_execution_context(&mut ctx, n.as_ptr().cast(), n.len(), 5), Some(want))
                }
                Call::SetIntWrongType => {
                    let want = rctx.set_field_value_from_name("s", 5i64).unwrap_err().to_string();
                    (!ffi::wirefilter_add_int_value_to_execution_context(&mut ctx, "s".as_ptr().cast(), 1, 5), Some(want))
                }
                _ => {
                    let n: &[u8] = b"s\xff";
                    let want = std::str::from_utf8(n).unwrap_err().to_string();
                    (!ffi::wirefilter_add_bytes_value_to_execution_context(&mut ctx, n.as_ptr().cast(), n.len(), b"v".as_ptr(), 1), Some(want))
                }
            }
        }
        Call::Set(st, case) => {
            let mut ctx = ffi::wirefilter_create_execution_context(&fx.cs);
            let mut rctx = wirefilter::ExecutionContext::<()>::new(&fx.rs);
            let own: &[u8] = match st {
                Setter::Int => b"i",
                Setter::Bytes => b"s",
                Setter::Ipv4 | Setter::Ipv6 => b"ip",
                Setter::Bool => b"t",
                Setter::Json => b"xi",
            };
            let other: &[u8] = if st == Setter::Int { b"s" } else { b"i" };
            let name: Vec<u8> = match case {
                SetCase::Ok => own.to_vec(),
                SetCase::UnknownField => b"no.such".to_vec(),
                SetCase::WrongType => if st == Setter::Json { own.to_vec() } else { other.to_vec() },
                SetCase::BadName => [own, b"\xff"].concat(),
            };
            let js: &[u8] = if case == SetCase::WrongType { b"[1,\"x\"]" } else { b"[1,2]" };
            let (np, nl) = (name.as_ptr().cast(), name.len());
            let ok = match st {
                Setter::Int => ffi::wirefilter_add_int_value_to_execution_context(&mut ctx, np, nl, 5),
                Setter::Bytes => ffi::wirefilter_add_bytes_value_to_execution_context(&mut ctx, np, nl, b"v".as_ptr(), 1),
                Setter::Ipv4 => ffi::wirefilter_add_ipv4_value_to_execution_context(&mut ctx, np, nl, &[1, 2, 3, 4]),
                Setter::Ipv6 => ffi::wirefilter_add_ipv6_value_to_execution_context(&mut ctx, np, nl, &[7; 16]),
                Setter::Bool => ffi::wirefilter_add_bool_value_to_execution_context(&mut ctx, np, nl, true),
                Setter::Json => ffi::wirefilter_add_json_value_to_execution_context(&mut ctx, np, nl, js.as_ptr(), js.len()),
            };
            let want = match std::str::from_utf8(&name) {
                Err(e) => Some(e.to_string()),
                Ok(n) => {
                    let r: Result<(), String> = match st {
                        Setter::Int => rctx.set_field_value_from_name(n, 5i64).map(|_| ()).map_err(|e| e.to_string()),
                        Setter::Bytes => rctx.set_field_value_from_name(n, &b"v"[..]).map(|_| ()).map_err(|e| e.to_string()),
                        Setter::Ipv4 => rctx.set_field_value_from_name(n, std::net::IpAddr::from([1u8, 2, 3, 4])).map(|_| ()).map_err(|e| e.to_string()),
                        Setter::Ipv6 => rctx.set_field_value_from_name(n, std::net::IpAddr::from([7u8; 16])).map(|_| ()).map_err(|e| e.to_string()),
                        Setter::Bool => rctx.set_field_value_from_name(n, true).map(|_| ()).map_err(|e| e.to_string()),
                        Setter::Json => match fx.rs.get_field(n) {
                            Err(e) => Err(e.to_string()),
                            Ok(f) => match wirefilter::GetType::get_type(&f).deserialize_value(&mut serde_json::Deserializer::from_reader(js)) {
                                Err(e) => Err(e.to_string()),
                                Ok(v) => rctx.set_field_value_from_name(n, v).map(|_| ()).map_err(|e| e.to_string()),
                            },
                        },
                    };
                    r.err()
                }
            };
            if case == SetCase::Ok {
                assert!(want.is_none(), "the Rust API accepts the well-typed value");
                (!ok, None)
            } else {
                assert!(want.is_some(), "the Rust API refuses {c:?}");
                (!ok, want)
            }
        }
        Call::AddFieldBadName => {
            let mut b = ffi::wirefilter_create_scheme_builder();
            let n: &[u8] = b"f\xfe";
            let ok = ffi::wirefilter_add_type_field_to_scheme(&mut b, n.as_ptr().cast(), n.len(), ctype(&Ty::Int));
            (!ok, Some(std::str::from_utf8(n).unwrap_err().to_string()))
        }
        Call::UsesBadName | Call::UsesListUnknown | Call::UsesListBadName => {
            let t = "t";
            let r = ffi::wirefilter_parse_filter(&fx.cs, t.as_ptr().cast(), t.len());
            let ast = r.ast.expect("parses");
            let n: &[u8] = if c == Call::UsesListUnknown { b"zz" } else { b"t\xff" };
            let u = if c == Call::UsesBadName { ffi::wirefilter_filter_uses(&ast, n.as_ptr().cast(), n.len()) } else { ffi::wirefilter_filter_uses_list(&ast, n.as_ptr().cast(), n.len()) };
            let want = match std::str::from_utf8(n) {
                Err(e) => e.to_string(),
                Ok(n) => fx.rs.parse(t).unwrap().uses_list(n).unwrap_err().to_string(),
            };
            (u.status == Status::Error, Some(want))
        }
        Call::DeserializeUnknownField | Call::DeserializeTruncated => {
            let mut ctx = ffi::wirefilter_create_execution_context(&fx.cs);
            let js = if c == Call::DeserializeUnknownField { "{\"i\":1,\"no.such\":2}" } else { "{\"i\":1,\"s\":\"ab" };
            let mut rctx = wirefilter::ExecutionContext::<()>::new(&fx.rs);
            let want = {
                use serde::de::DeserializeSeed;
                let owned = leak_str(js.to_string());
                rctx.deserialize(&mut serde_json::Deserializer::from_reader(owned.as_bytes())).unwrap_err().to_string()
            };
            (!ffi::wirefilter_deserialize_json_to_execution_context(&mut ctx, js.as_ptr(), js.len()), Some(want))
        }
        Call::DeserializeBadJson => {
            let mut ctx = ffi::wirefilter_create_execution_context(&fx.cs);
            let js = "{\"i\":\"not a number\"}";
            let mut rctx = wirefilter::ExecutionContext::<()>::new(&fx.rs);
            let want = {
                use serde::de::DeserializeSeed;
                let owned = leak_str(js.to_string());
                rctx.deserialize(&mut serde_json::Deserializer::from_reader(owned.as_bytes())).unwrap_err().to_string()
            };
            (!ffi::wirefilter_deserialize_json_to_execution_context(&mut ctx, js.as_ptr(), js.len()), Some(want))
        }
        Call::UsesUnknown => {
            let t = "t";
            let r = ffi::wirefilter_parse_filter(&fx.cs, t.as_ptr().cast(), t.len());
            let ast = r.ast.expect("parses");
            let n = "zz";
            let u = ffi::wirefilter_filter_uses(&ast, n.as_ptr().cast(), n.len());
            (u.status == Status::Error, Some(fx.rs.parse(t).unwrap().uses(n).unwrap_err().to_string()))
        }
        Call::MatchSchemeMismatch | Call::MatchOk => {
            let t = "t";
            let r = ffi::wirefilter_parse_filter(&fx.cs, t.as_ptr().cast(), t.len());
            let f = ffi::wirefilter_compile_filter(r.ast.expect("parses")).filter.expect("compiles");
            let sch = if c == Call::MatchOk { &fx.cs } else { &fx.other };
            let mut ctx = ffi::wirefilter_create_execution_context(sch);
            let _ = ffi::wirefilter_add_bool_value_to_execution_context(&mut ctx, "t".as_ptr().cast(), 1, true);
            let m = ffi::wirefilter_match(&f, &ctx);
            if c == Call::MatchOk {
                (m.status != Status::Success, None)
            } else {
                (m.status == Status::Error, Some(wirefilter::SchemeMismatchError.to_string()))
            }
        }
        Call::AddDuplicateField => {
            let mut b = ffi::wirefilter_create_scheme_builder();
            let n = "dup";
            let _ = ffi::wirefilter_add_type_field_to_scheme(&mut b, n.as_ptr().cast(), n.len(), ctype(&Ty::Int));
            let ok = ffi::wirefilter_add_type_field_to_scheme(&mut b, n.as_ptr().cast(), n.len(), ctype(&Ty::Bytes));
            let mut rb = wirefilter::SchemeBuilder::new();
            rb.add_field(n, wirefilter::Type::Int).unwrap();
            (!ok, Some(rb.add_field(n, wirefilter::Type::Bytes).unwrap_err().to_string()))
        }
        Call::AddDuplicateList => {
            let mut b = ffi::wirefilter_create_scheme_builder();
            let _ = ffi::wirefilter_add_always_list_to_scheme(&mut b, ctype(&Ty::Int));
            let ok = ffi::wirefilter_add_never_list_to_scheme(&mut b, ctype(&Ty::Int));
            let mut rb = wirefilter::SchemeBuilder::new();
            rb.add_list(wirefilter::Type::Int, wirefilter::AlwaysList {}).unwrap();
            (!ok, Some(rb.add_list(wirefilter::Type::Int, wirefilter::NeverList {}).unwrap_err().to_string()))
        }
        Call::BadFallbackMode => (!ffi::panic::wirefilter_set_panic_catcher_fallback_mode(7), Some("Invalid fallback mode 7".to_string())),
        Call::GetVersion => {
            let v = ffi::wirefilter_get_version();
            (v.ptr.is_null(), None)
        }
        Call::Clear => {
            ffi::wirefilter_clear_last_error();
            (false, None)
        }
    }
}

fn is_failing(c: Call) -> bool {
    !matches!(c, Call::ParseOk | Call::SetIntOk | Call::MatchOk | Call::GetVersion | Call::Clear | Call::Set(_, SetCase::Ok))
}

/// Runs a call sequence on the current thread from a clean last-error; returns problems.
fn run_history(fx: &Fixture, calls: &[Call], with_points: bool) -> (Vec<String>, Vec<Option<Vec<u8>>>) {
    let mut problems = Vec::new();
    let mut observed = Vec::new();
    ffi::wirefilter_clear_last_error();
    let mut model: Option<Vec<u8>> = None;
    for (k, c) in calls.iter().enumerate() {
        if with_points {
            sched::yield_now("c-api-call");
        }
        let (reported_failure, text) = perform(fx, *c);
        if is_failing(*c) {
            if !reported_failure {
                problems.push(format!("call {k} {c:?} did not report failure through its status / boolean"));
            }
            model = Some(nul_substituted(text.as_deref().unwrap_or("")));
        } else {
            if reported_failure {
                problems.push(format!("call {k} {c:?} reported failure"));
            }
            if *c == Call::Clear {
                model = None;
            }
        }
        match last_error() {
            Err(e) => problems.push(format!("after call {k} {c:?}: {e}")),
            Ok(le) => {
                if le != model {
                    problems.push(format!(
                        "after call {k} {c:?}: last error {:?}, expected {:?}",
                        le.as_ref().map(|b| String::from_utf8_lossy(b).to_string()),
                        model.as_ref().map(|b| String::from_utf8_lossy(b).to_string())
                    ));
                }
                if let Some(b) = &le {
                    if b.contains(&0) {
                        problems.push("last error contains an interior NUL".into());
                    }
                }
                observed.push(le);
            }
        }
    }
    (problems, observed)
}

pub fn run(tier: Tier, seed: u64) -> i32 {
    let run = Run::new(ID, "model_checking", tier, seed);
    run.assume("the exported functions are called as Rust functions from the rlib; functions are registered through the Rust builder the C builder wraps (no C entry point exists for them)");
    super::c19::install_hooks();
    let u = c_universe();
    let rs = u.build();
    let cs = c_scheme(&u);
    let mctxs = contexts();

    // ---- (a) parity over programs ---------------------------------------------------------------
    {
        let (_, cu) = crate::unis::containers(true);
        // corpus filters that are well typed in the C universe (same field names; a subset of the functions)
        let mut texts: Vec<Vec<u8>> = corpus::filters(&cu, tier.pick(4, 8)).into_iter().filter(|e| crate::sem::filter_ok(&u, e).is_ok()).map(|e| render(&e).into_bytes()).collect();
        // error inputs
        for bad in [
            &b"i == "[..], b"nope == 1", b"i == \"x\"", b"s == 1", b"\0", b"i == 1 \0", b"s == \"\0\"", b"\xff", b"s == \"\xc3\"", b"t and\n (u or\n\0 zz)", b"", b"   ",
            b"idb(i) == 1", b"any(xi)", b"i in $nolist.", b"ip in {1.2.3.4/33}", b"s matches \"(\"", b"xi[4294967296] == 1", "s == \"é😢\" and \u{0}bad".as_bytes(),
        ] {
            texts.push(bad.to_vec());
        }
        run.set("parity_filters", json!(texts.len()));
        for (k, t) in texts.iter().enumerate() {
            let r = guarded(|| parity(&u, &rs, &cs, t, &mctxs));
            run.eval(1);
            run.count("parity_filters", 1);
            let problems = match r {
                Ok(p) => p,
                Err(p) => vec![format!("unwound out of the C API: {p}")],
            };
            for p in problems {
                run.violation(
                    format!("{ID}:parity:{}:{}", String::from_utf8_lossy(t), p.split(':').next().unwrap_or("")),
                    format!("filter {:?}: {p}", String::from_utf8_lossy(t)),
                    json!({"kind": "c20-parity", "text": t}),
                );
            }
            if k % 97 == 3 {
                run.sample(6, || json!({"filter": String::from_utf8_lossy(t), "contexts": mctxs.len(), "compared": ["parse status", "error text", "JSON", "hash", "uses", "uses_list", "match", "context JSON"]}));
            }
        }
    }

    // ---- (b) last-error histories: BFS with the last-error text as state ---------------------------
    let fx = fixture();
    let depth = tier.pick(3usize, 4usize);
    let mut seen: HashSet<Option<Vec<u8>>> = HashSet::new();
    seen.insert(None);
    let (mut states, mut transitions) = (1u64, 0u64);
    let full = all_calls();
    let full_depth = tier.pick(2usize, 3usize);
    let plans: Vec<(&[Call], usize)> = vec![(&CALLS[..], depth), (&full[..], full_depth)];
    for (alphabet, depth) in plans {
      for len in 1..=depth {
        for code in 0..alphabet.len().pow(len as u32) {
            let mut x = code;
            let mut seq = Vec::new();
            for _ in 0..len {
                seq.push(alphabet[x % alphabet.len()]);
                x /= alphabet.len();
            }
            // sequences over the core alphabet are covered by the first plan
            if alphabet.len() > CALLS.len() && seq.iter().all(|c| CALLS.contains(c)) {
                continue;
            }
            let r = guarded(|| run_history(&fx, &seq, false));
            transitions += 1;
            match r {
                Err(p) => run.violation(format!("{ID}:history-unwound:{seq:?}"), format!("calls {seq:?}: unwound out of the C API: {p}"), json!({"kind": "c20-history", "calls": seq})),
                Ok((problems, observed)) => {
                    for p in &problems {
                        run.violation(format!("{ID}:history:{:?}:{}", seq.last(), p.split(':').nth(1).unwrap_or(p)), format!("calls {seq:?}: {p}"), json!({"kind": "c20-history", "calls": seq}));
                    }
                    for o in observed {
                        if seen.insert(o) {
                            states += 1;
                        }
                    }
                }
            }
        }
      }
    }
    run.eval(transitions);
    run.count("history_transitions", transitions);

    // ---- (c) two threads x 2 calls: last-error is per thread -----------------------------------------
    let fx = std::sync::Arc::new(FixtureShared(fixture()));
    let pair_calls = [Call::ParseErr, Call::SetIntWrongType, Call::Clear, Call::ParseOk, Call::UsesUnknown, Call::ParseErrWithNul];
    let mut schedules = 0u64;
    // (the weights are the calls' positions in the core alphabet)
    let pos = |c: Call| CALLS.iter().position(|x| *x == c).unwrap_or(0);
    for a0 in pair_calls {
        for a1 in pair_calls {
            for b0 in pair_calls {
                for b1 in pair_calls {
                    if tier == Tier::Quick && (pos(a0) + 2 * pos(a1) + 3 * pos(b0) + pos(b1)) % 7 != 0 {
                        continue;
                    }
                    let (sa, sb) = (vec![a0, a1], vec![b0, b1]);
                    let fxc = fx.clone();
                    let (sa2, sb2) = (sa.clone(), sb.clone());
                    let mk = move || -> Vec<Box<dyn FnOnce() -> Vec<String> + Send>> {
                        let (f1, f2) = (fxc.clone(), fxc.clone());
                        let (x, y) = (sa2.clone(), sb2.clone());
                        vec![Box::new(move || run_history(&f1.0, &x, true).0), Box::new(move || run_history(&f2.0, &y, true).0)]
                    };
                    let mut check = |x: &sched::Execution<Vec<String>>, choices: &[usize]| {
                        for t in 0..2 {
                            for p in &x.results[t] {
                                run.violation(
                                    format!("{ID}:two-threads:{sa:?}:{sb:?}:{t}"),
                                    format!("threads {sa:?} || {sb:?}: thread {t}: {p}; schedule {:?}", sched::format_schedule(&x.trace)),
                                    json!({"kind": "c20-pair", "a": sa, "b": sb, "schedule": choices}),
                                );
                            }
                        }
                        true
                    };
                    let mut on_error = |e: String, choices: &[usize]| {
                        run.violation(format!("{ID}:two-threads-error:{sa:?}:{sb:?}"), format!("threads {sa:?} || {sb:?}: {e}"), json!({"kind": "c20-pair", "a": sa, "b": sb, "schedule": choices}));
                    };
                    let st = sched::explore(&mk, usize::MAX / 2, 10_000, &mut check, &mut on_error);
                    schedules += st.schedules;
                }
            }
        }
    }
    run.eval(schedules);
    run.count("two_thread_schedules", schedules);

    // ---- (d) a panic inside parse / compile / match is reported as a panic status ---------------------
    {
        ffi::panic::wirefilter_set_panic_catcher_hook();
        ffi::panic::wirefilter_enable_panic_catcher();
        let r = guarded(|| {
            let mut problems = Vec::new();
            // parse
            ffi::wirefilter_clear_last_error();
            let t = "boom(1)";
            let p = ffi::wirefilter_parse_filter(&cs, t.as_ptr().cast(), t.len());
            let le = last_error().ok().flatten().map(|b| String::from_utf8_lossy(&b).to_string()).unwrap_or_default();
            if p.status != Status::Panic || p.ast.is_some() || !le.contains("boom in check_param") {
                problems.push(format!("panic in parse: status {:?}, last error {le:?}", p.status));
            }
            // compile
            ffi::wirefilter_clear_last_error();
            let t = "boom(2)";
            let p = ffi::wirefilter_parse_filter(&cs, t.as_ptr().cast(), t.len());
            match p.ast {
                None => problems.push("boom(2) did not parse".into()),
                Some(ast) => {
                    let c = ffi::wirefilter_compile_filter(ast);
                    let le = last_error().ok().flatten().map(|b| String::from_utf8_lossy(&b).to_string()).unwrap_or_default();
                    if c.status != Status::Panic || c.filter.is_some() || !le.contains("boom in compile") {
                        problems.push(format!("panic in compile: status {:?}, last error {le:?}", c.status));
                    }
                }
            }
            // match
            ffi::wirefilter_clear_last_error();
            let t = "boom(3) or t";
            let p = ffi::wirefilter_parse_filter(&cs, t.as_ptr().cast(), t.len());
            let f = ffi::wirefilter_compile_filter(p.ast.expect("parses")).filter.expect("compiles");
            let mut ctx = ffi::wirefilter_create_execution_context(&cs);
            fill_c_ctx(&mut ctx, &mctxs[0]).expect("fill");
            let m = ffi::wirefilter_match(&f, &ctx);
            let le = last_error().ok().flatten().map(|b| String::from_utf8_lossy(&b).to_string()).unwrap_or_default();
            if m.status != Status::Panic || m.matched || !le.contains("boom in execute") {
                problems.push(format!("panic in match: status {:?}, last error {le:?}", m.status));
            }
            // and the API keeps working afterwards
            let t = "boom(0) and t";
            let p = ffi::wirefilter_parse_filter(&cs, t.as_ptr().cast(), t.len());
            let f = ffi::wirefilter_compile_filter(p.ast.expect("parses")).filter.expect("compiles");
            let m = ffi::wirefilter_match(&f, &ctx);
            if m.status != Status::Success || !m.matched {
                problems.push(format!("after the panics: boom(0) and t gives {:?}/{}", m.status, m.matched));
            }
            problems
        });
        ffi::panic::wirefilter_disable_panic_catcher();
        run.eval(4);
        run.count("panic_status_cases", 4);
        for p in r.unwrap_or_else(|p| vec![format!("a panic unwound into the caller: {p}")]) {
            run.violation(format!("{ID}:panic-status:{}", p.split(':').next().unwrap_or("")), p, json!({"kind": "c20-panic"}));
        }
    }

    run.set("states", json!(states));
    run.set("transitions", json!(transitions + schedules));
    run.set("traces_validated_against_impl", json!(transitions + schedules));
    run.set("bounds", json!({"history_depth": depth, "calls": format!("{CALLS:?}"), "all_calls": format!("{:?}", all_calls()), "all_calls_depth": full_depth, "two_thread_calls": format!("{pair_calls:?}")}));
    run.sample(8, || json!({"history": ["ParseErrWithNul", "SetIntOk", "Clear", "UsesUnknown"], "expected_last_error_after_each": ["<parse error text with NUL -> 0x1a>", "<unchanged>", null, "unknown field"]}));
    run.count("last_error_states", states);
    run.finish(
        transitions + schedules,
        "parity of every corpus filter and 19 error inputs between the C and the Rust API (parse status, error text modulo NUL substitution, JSON, hash = FNV of the JSON, uses / uses_list incl. unknown names, compile, match and context JSON on 3 contexts); BFS over call histories (17 call kinds) with the last-error text as state; two threads x 2 calls under every interleaving at call granularity; panics inside parse / compile / match with the catcher enabled",
        true,
        &[("parity_filters", 200), ("history_transitions", 300), ("two_thread_schedules", 200), ("last_error_states", 8), ("panic_status_cases", 4)],
    )
}

struct FixtureShared(Fixture);
// the fixture's schemes are only read (parse / create context) by the worker threads
unsafe impl Send for FixtureShared {}
unsafe impl Sync for FixtureShared {}

pub fn replay(case: &serde_json::Value) -> Result<u64, String> {
    super::c19::install_hooks();
    match case["kind"].as_str().unwrap_or("") {
        "c20-parity" => {
            let text: Vec<u8> = serde_json::from_value(case["text"].clone()).map_err(|e| e.to_string())?;
            let u = c_universe();
            let (rs, cs) = (u.build(), c_scheme(&u));
            let p = guarded(|| parity(&u, &rs, &cs, &text, &contexts())).unwrap_or_else(|p| vec![p]);
            for x in &p {
                eprintln!("{x}");
            }
            Ok(p.len() as u64)
        }
        "c20-history" => {
            let calls: Vec<Call> = serde_json::from_value(case["calls"].clone()).map_err(|e| e.to_string())?;
            let fx = fixture();
            let p = guarded(|| run_history(&fx, &calls, false).0).unwrap_or_else(|p| vec![p]);
            for x in &p {
                eprintln!("{x}");
            }
            Ok(p.len() as u64)
        }
        "c20-pair" => {
            let a: Vec<Call> = serde_json::from_value(case["a"].clone()).map_err(|e| e.to_string())?;
            let b: Vec<Call> = serde_json::from_value(case["b"].clone()).map_err(|e| e.to_string())?;
            let schedule: Vec<usize> = serde_json::from_value(case["schedule"].clone()).map_err(|e| e.to_string())?;
            let fx = std::sync::Arc::new(FixtureShared(fixture()));
            let (f1, f2) = (fx.clone(), fx.clone());
            let bodies: Vec<Box<dyn FnOnce() -> Vec<String> + Send>> = vec![Box::new(move || run_history(&f1.0, &a, true).0), Box::new(move || run_history(&f2.0, &b, true).0)];
            let x = sched::run_once(bodies, &schedule)?;
            Ok(x.results.iter().map(|r| r.len() as u64).sum())
        }
        _ => Err("re-run `./run.sh C20 quick`".into()),
    }
}
