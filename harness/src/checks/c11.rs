//! C11 — regex and wildcard semantics (shape P x configurations, exhaustive).

use crate::ast::*;
use crate::ev::{Run, Tier, guarded, ncpu, par_for};
use crate::prog::{Bench, Outcome, case_json, check_filter};
use crate::rx;
use crate::sem::expr_json;
use crate::uni::MCtx;
use crate::unis;
use crate::val::V;
use serde_json::json;
use std::collections::BTreeSet;
use std::sync::atomic::{AtomicU64, Ordering};
use wirefilter::ParserSettings;

pub const ID: &str = "C11";

/// (text, quantifiable)
const ATOMS: [(&str, bool); 15] = [
    // an escaped quote inside a class must reach the engine unchanged
    ("[\\\"]", true),
    ("[a\\\"]", true),
    // ... and an escaped backslash right before the closing bracket
    ("[a\\\\]", true),
    ("a", true),
    ("b", true),
    (".", true),
    ("[ab]", true),
    ("[^a]", true),
    ("[\"]", true),
    ("[\\]\"]", true),
    ("\\x61", true),
    // a non-ASCII character denotes its UTF-8 bytes and does not switch the matcher to Unicode mode
    ("\u{e9}", true),
    ("\"", true),
    ("^", false),
    ("$", false),
];

#[derive(Clone)]
struct Pat {
    text: String,
    quantifiable: bool,
    /// needs a group to be used as an operand of concatenation / quantifier
    is_alt: bool,
}

/// All pattern texts of exactly `size` nodes.
fn patterns_by_size(max: usize) -> Vec<Vec<Pat>> {
    let mut by: Vec<Vec<Pat>> = vec![vec![]; max + 1];
    by[1] = ATOMS.iter().map(|(t, q)| Pat { text: (*t).to_string(), quantifiable: *q, is_alt: false }).collect();
    for n in 2..=max {
        let mut cur: Vec<Pat> = Vec::new();
        // quantifier / group over size n-1
        for p in by[n - 1].clone() {
            if p.quantifiable {
                for q in ['?', '*', '+'] {
                    cur.push(Pat { text: format!("{}{q}", p.text), quantifiable: false, is_alt: false });
                }
            }
            cur.push(Pat { text: format!("({})", p.text), quantifiable: true, is_alt: false });
        }
        // concat / alternation of sizes i + j = n - 1
        for i in 1..n - 1 {
            let j = n - 1 - i;
            for x in &by[i] {
                for y in &by[j] {
                    if !x.is_alt && !y.is_alt {
                        cur.push(Pat { text: format!("{}{}", x.text, y.text), quantifiable: false, is_alt: false });
                    }
                    cur.push(Pat { text: format!("{}|{}", x.text, y.text), quantifiable: false, is_alt: true });
                }
            }
        }
        by[n] = cur;
    }
    by
}

fn values(alphabet: &[u8], max_len: usize) -> Vec<Vec<u8>> {
    let mut out = vec![vec![]];
    let mut level = vec![vec![]];
    for _ in 0..max_len {
        let mut next = Vec::new();
        for v in &level {
            for c in alphabet {
                let mut w: Vec<u8> = v.clone();
                w.push(*c);
                next.push(w);
            }
        }
        out.extend(next.iter().cloned());
        level = next;
    }
    out
}

fn raw_hashes_for(p: &str) -> Option<u8> {
    (0u8..=3).find(|n| raw_form_ok(p.as_bytes(), *n))
}

pub fn run(tier: Tier, seed: u64) -> i32 {
    let run = Run::new(ID, "exploration", tier, seed);
    run.assume("regex subset: literals, ., classes (incl. quotes, escaped bracket), \\xHH, ?, *, +, |, groups, ^ $; reference matcher harness/src/rx.rs (backtracking over bytes)");
    let nontrivial = AtomicU64::new(0);
    let programs = AtomicU64::new(0);
    let note = |o: Outcome| {
        programs.fetch_add(1, Ordering::Relaxed);
        if o.trues > 0 && o.falses > 0 {
            nontrivial.fetch_add(1, Ordering::Relaxed);
        }
    };
    let (tag, uni) = unis::scalar(true, true);

    // ------------------------------- regex -------------------------------------------------
    {
        let max_size = tier.pick(5usize, 6usize);
        let by = patterns_by_size(max_size);
        let mut texts: BTreeSet<String> = BTreeSet::new();
        for level in &by {
            for p in level {
                texts.insert(p.text.clone());
            }
        }
        let texts: Vec<String> = texts.into_iter().filter(|t| rx::supported(t)).collect();
        run.set("regex_patterns", json!(texts.len()));
        let vals = values(&[b'a', b'b', b'A', b'"', b'\n', 0xff, 0xc3, 0xa9], 3);
        let mut ctxs: Vec<MCtx> = vals
            .iter()
            .map(|v| {
                let mut m = MCtx::new();
                m.insert("s".into(), V::Bytes(v.clone()));
                m
            })
            .collect();
        ctxs.push(MCtx::new());
        let b = Bench::new(&tag, uni.clone(), ctxs);
        par_for(texts.len(), ncpu(), |k| {
            let p = &texts[k];
            let mut forms = vec![BytesForm::Quoted];
            if let Some(n) = raw_hashes_for(p) {
                forms.push(BytesForm::Raw(n));
                if n < 3 && raw_form_ok(p.as_bytes(), n + 1) {
                    forms.push(BytesForm::Raw(n + 1));
                }
            }
            for form in forms {
                let e = Expr::cmp(Lhs::field("s"), CmpOp::Matches, Rhs::Regex(p.clone(), form));
                note(check_filter(&run, ID, &b, &e));
                // the pattern text stored in the AST / JSON is the intended pattern
                let text = render(&e);
                if let Ok(Ok(ast)) = guarded(|| b.scheme.parse(&text)) {
                    let js = serde_json::to_string(&ast).unwrap_or_default();
                    if js != expr_json(&e) {
                        run.violation(
                            format!("{ID}:regex-pattern-text:{text}"),
                            format!("pattern stored for {text:?} is not the intended one: JSON {js}, expected {}", expr_json(&e)),
                            case_json(&b.tag, "filter", &text, json!(e), None, json!({})),
                        );
                    }
                }
                run.count("regex_filters", 1);
                if k % 389 == 1 {
                    run.sample(6, || json!({"operator": "matches", "filter": text, "values": b.ctxs.len()}));
                }
            }
        });

        // invalid patterns are rejected at parse time, in both forms
        let invalid = ["(", ")", "a)", "(a", "[a", "*", "+a", "?", "a{2", "a{2,1}", "\\", "(?P<n", "[z-a]", "a|*", "(?", "[]"];
        for p in invalid {
            for text in [format!("s matches \"{p}\""), format!("s matches r#\"{p}\"#"), format!("s ~ \"{p}\"")] {
                // `\` before the closing quote would escape it in the quoted form: use raw there
                if p.ends_with('\\') && !text.contains("r#") {
                    continue;
                }
                let got = guarded(|| b.scheme.parse(&text).is_ok());
                run.eval(1);
                run.count("invalid_regexes", 1);
                if got != Ok(false) {
                    run.violation(
                        format!("{ID}:invalid-regex-accepted:{text}"),
                        format!("invalid regular expression accepted (or parse panicked): {text:?}: {got:?}"),
                        json!({"kind": "c11-text", "text": text}),
                    );
                }
            }
        }

        // size limits: rejection over the limit, acceptance monotone in the limit, answers unchanged
        let sample_pats: Vec<&String> = texts.iter().step_by((texts.len() / 300).max(1)).collect();
        let limits: [usize; 5] = [0, 64, 1024, 65536, 10 * (1 << 20)];
        for p in sample_pats {
            let e = Expr::cmp(Lhs::field("s"), CmpOp::Matches, Rhs::Regex(p.clone(), BytesForm::Quoted));
            let text = render(&e);
            let mut prev_ok = false;
            for lim in limits {
                for dfa in [0usize, 2 * (1 << 20)] {
                    let settings = ParserSettings { regex_compiled_size_limit: lim, regex_dfa_size_limit: dfa, ..Default::default() };
                    let got = guarded(|| {
                        let parser = b.scheme.parser_with_settings(settings.clone());
                        parser.parse(&text).map(|ast| {
                            let f = ast.compile();
                            b.ctxs.iter().map(|c| f.execute(c).unwrap()).collect::<Vec<bool>>()
                        }).map_err(|e| e.to_string())
                    });
                    run.eval(1);
                    run.count("limit_settings_tried", 1);
                    // the same limits configured through the parser's setters decide the same way
                    let via_setters = guarded(|| {
                        let mut parser = b.scheme.parser();
                        parser.regex_set_compiled_size_limit(lim);
                        parser.regex_set_dfa_size_limit(dfa);
                        (parser.regex_get_compiled_size_limit(), parser.regex_get_dfa_size_limit(), parser.parse(&text).is_ok())
                    });
                    let accepted_via_settings = got.as_ref().map(|r| r.is_ok()).ok();
                    if via_setters.as_ref().ok().map(|x| *x) != accepted_via_settings.map(|a| (lim, dfa, a)) {
                        run.violation(
                            format!("{ID}:limit-routes:{lim}:{dfa}:{text}"),
                            format!("{text:?}: limits ({lim}, {dfa}) through ParserSettings give accepted={accepted_via_settings:?}, through the setters (limits read back, accepted) = {via_setters:?}"),
                            json!({"kind": "c11-text", "text": text, "compiled_limit": lim, "dfa_limit": dfa}),
                        );
                    }
                    match got {
                        Err(pn) => run.violation(
                            format!("{ID}:limit-panic:{lim}:{dfa}:{text}"),
                            format!("{text:?} with compiled limit {lim}, dfa limit {dfa}: panic {pn}"),
                            json!({"kind": "c11-text", "text": text, "compiled_limit": lim, "dfa_limit": dfa}),
                        ),
                        Ok(Ok(answers)) => {
                            for (i, a) in answers.iter().enumerate() {
                                let want = b.env(i).eval_filter(&e);
                                if *a != want {
                                    run.violation(
                                        format!("{ID}:limit-answer:{lim}:{dfa}:{text}"),
                                        format!("{text:?} with compiled limit {lim}, dfa limit {dfa}: answer {a} differs from reference {want}"),
                                        json!({"kind": "c11-text", "text": text, "compiled_limit": lim, "dfa_limit": dfa}),
                                    );
                                    break;
                                }
                            }
                            if dfa != 0 {
                                prev_ok = true;
                            }
                        }
                        Ok(Err(_)) => {
                            if prev_ok && dfa != 0 {
                                run.violation(
                                    format!("{ID}:limit-not-monotone:{lim}:{text}"),
                                    format!("{text:?} accepted under a smaller compiled-size limit but rejected under {lim}"),
                                    json!({"kind": "c11-text", "text": text, "compiled_limit": lim}),
                                );
                            }
                            if lim == 10 * (1 << 20) && dfa != 0 {
                                run.violation(
                                    format!("{ID}:default-limit-rejects:{text}"),
                                    format!("{text:?} rejected under the default limits"),
                                    json!({"kind": "c11-text", "text": text}),
                                );
                            }
                        }
                    }
                }
            }
            if limits[0] == 0 {
                // a zero limit can hold no compiled regex at all
                let settings = ParserSettings { regex_compiled_size_limit: 0, ..Default::default() };
                let got = guarded(|| b.scheme.parser_with_settings(settings).parse(&text).is_ok());
                if got == Ok(true) {
                    run.count("accepted_under_zero_limit", 1);
                }
            }
        }
    }

    // ------------------------------- wildcard ---------------------------------------------
    {
        let pat_len = tier.pick(4usize, 5usize);
        let val_len = tier.pick(3usize, 4usize);
        let pats = values(&[b'a', b'A', b'b', b'*', b'\\', b'?'], pat_len);
        let vals = values(&[b'a', b'A', b'b', b'*', b'\\', b'?', 0xff], val_len);
        let mut ctxs: Vec<MCtx> = vals
            .iter()
            .map(|v| {
                let mut m = MCtx::new();
                m.insert("s".into(), V::Bytes(v.clone()));
                m
            })
            .collect();
        ctxs.push(MCtx::new());
        let b = Bench::new(&tag, uni.clone(), ctxs);
        run.set("wildcard_patterns", json!(pats.len()));
        par_for(pats.len(), ncpu(), |k| {
            let p = &pats[k];
            let valid = rx::wildcard_valid(p, usize::MAX);
            for op in [CmpOp::Wildcard, CmpOp::StrictWildcard] {
                for form in [BytesForm::Raw(0), BytesForm::Quoted] {
                    let e = Expr::cmp(Lhs::field("s"), op, Rhs::Lit(Lit::Bytes(p.clone(), form)));
                    let text = render(&e);
                    if valid {
                        note(check_filter(&run, ID, &b, &e));
                        run.count("wildcard_filters", 1);
                        if k % 211 == 5 {
                            run.sample(12, || json!({"filter": text, "values": b.ctxs.len()}));
                        }
                    } else {
                        let got = guarded(|| b.scheme.parse(&text).is_ok());
                        run.eval(1);
                        run.count("invalid_wildcards", 1);
                        if got != Ok(false) {
                            run.violation(
                                format!("{ID}:invalid-wildcard-accepted:{text}"),
                                format!("invalid wildcard accepted (or parse panicked): {text:?}: {got:?}"),
                                json!({"kind": "c11-text", "text": text}),
                            );
                        }
                    }
                }
            }
            // star limits 0..4
            let e = Expr::cmp(Lhs::field("s"), CmpOp::Wildcard, Rhs::Lit(Lit::Bytes(p.clone(), BytesForm::Raw(0))));
            let text = render(&e);
            for lim in 0..=4usize {
                let want = rx::wildcard_valid(p, lim);
                let got = guarded(|| {
                    let mut parser = b.scheme.parser();
                    parser.wildcard_set_star_limit(lim);
                    let a = parser.parse(&text).is_ok();
                    // the limit handed over in ParserSettings decides the same way
                    let q = b.scheme.parser_with_settings(ParserSettings { wildcard_star_limit: lim, ..Default::default() });
                    let bq = q.parse(&text).is_ok();
                    if a == bq && parser.wildcard_get_star_limit() == lim && q.wildcard_get_star_limit() == lim { a } else { !want }
                });
                run.eval(1);
                run.count("star_limit_cases", 1);
                if got != Ok(want) {
                    run.violation(
                        format!("{ID}:star-limit:{lim}:{text}"),
                        format!("{text:?} with star limit {lim}: engine accepted={got:?}, reference {want}"),
                        json!({"kind": "c11-text", "text": text, "star_limit": lim}),
                    );
                }
            }
        });
    }
    // ------------------------------- long values --------------------------------------------
    {
        let mut vals: Vec<Vec<u8>> = Vec::new();
        for l in [15usize, 16, 17, 63, 64, 65, 255, 256, 257, 1000] {
            vals.push(vec![b'a'; l]);
            let mut t = vec![b'a'; l];
            t[l - 1] = b'b';
            vals.push(t.clone());
            t[0] = b'B';
            vals.push(t);
        }
        let ctxs: Vec<MCtx> = vals
            .iter()
            .map(|v| {
                let mut m = MCtx::new();
                m.insert("s".into(), V::Bytes(v.clone()));
                m
            })
            .collect();
        let b = Bench::new(&tag, uni.clone(), ctxs);
        for p in ["^a.*b$", "ab+$", "^a+$", "b|B", "^(a|B)a*b$", "a[^a]$", "^.a"] {
            for form in [BytesForm::Quoted, BytesForm::Raw(1)] {
                let e = Expr::cmp(Lhs::field("s"), CmpOp::Matches, Rhs::Regex(p.to_string(), form));
                note(check_filter(&run, ID, &b, &e));
                run.count("long_value_filters", 1);
            }
        }
        for p in [&b"a*b"[..], b"*ab", b"a*", b"*b", b"b*b", b"*a*a*b", b"a*a"] {
            for op in [CmpOp::Wildcard, CmpOp::StrictWildcard] {
                let e = Expr::cmp(Lhs::field("s"), op, Rhs::Lit(Lit::Bytes(p.to_vec(), BytesForm::Quoted)));
                note(check_filter(&run, ID, &b, &e));
                run.count("long_value_filters", 1);
            }
        }
    }
    run.set("programs", json!(programs.load(Ordering::Relaxed)));
    run.finish(
        nontrivial.load(Ordering::Relaxed),
        "every regex of <=4 (quick) / <=5 (thorough) nodes from the grammar in quoted and raw forms x every value of length <=3 over {a,b,A,\",LF,0xff}; invalid regexes; size limits; every wildcard pattern of length <=4 / <=5 over {a,A,b,*,\\,?} x both operators x raw/quoted x every value of length <=3 / <=4 x star limits 0..4; non-trivial = filter observed both true and false",
        true,
        &[("regex_filters", 1000), ("wildcard_filters", 500), ("invalid_wildcards", 100), ("star_limit_cases", 1000)],
    )
}
