//! C01 — scalar comparisons and boolean logic (shape P, exhaustive).

use crate::ast::*;
use crate::ev::{Run, Tier, ncpu, par_for};
use crate::prog::{Bench, check_filter};
use crate::uni::MCtx;
use crate::unis;
use crate::val::V;
use serde_json::json;
use std::collections::BTreeMap;
use std::net::IpAddr;
use std::sync::Mutex;

pub const ID: &str = "C01";

fn seed_ints(seed: u64) -> Vec<i64> {
    if seed == 0 {
        return vec![];
    }
    let mut x = seed.wrapping_mul(0x9E3779B97F4A7C15) | 1;
    (0..3)
        .map(|_| {
            x ^= x << 13;
            x ^= x >> 7;
            x ^= x << 17;
            x as i64
        })
        .collect()
}

pub fn int_pool(seed: u64) -> Vec<i64> {
    let mut v = vec![i64::MIN, -1, 0, 1, i64::MAX];
    v.extend(seed_ints(seed));
    v
}

pub fn bytes_pool(seed: u64) -> Vec<Vec<u8>> {
    let mut v: Vec<Vec<u8>> = vec![b"".to_vec(), b"a".to_vec(), b"ab".to_vec(), b"b".to_vec(), b"a\xff".to_vec()];
    for i in seed_ints(seed).into_iter().take(2) {
        v.push(i.to_le_bytes()[..3].to_vec());
    }
    // long values sharing a long prefix (lengths around the widths of vector registers and counters)
    for l in [16usize, 64, 65, 300] {
        v.push(vec![b'a'; l]);
        let mut t = vec![b'a'; l];
        t[l - 1] = b'b';
        v.push(t);
    }
    v
}

pub fn ip_pool(seed: u64) -> Vec<IpAddr> {
    // (the IPv6 addresses pairwise differ in several octets, in opposite directions)
    let mut v: Vec<IpAddr> = ["1.2.3.4", "1.2.3.5", "255.255.255.255", "2.1.4.3", "::1", "::ffff:1.2.3.4", "2001:db8::1", "2001:db9::", "::1:ffff", "::2:0", "::100"]
        .iter()
        .map(|s| s.parse().unwrap())
        .collect();
    if let Some(i) = seed_ints(seed).first() {
        let mut o = [0u8; 16];
        o[..8].copy_from_slice(&i.to_be_bytes());
        o[15] = 1;
        v.push(IpAddr::from(o));
    }
    v
}

fn ctx1(name: &str, v: Option<V>, base: &MCtx) -> MCtx {
    let mut m = base.clone();
    match v {
        Some(v) => {
            m.insert(name.to_string(), v);
        }
        None => {
            m.remove(name);
        }
    }
    m
}

/// A context in which every field has some value (needed for mandatory universes).
fn base_ctx() -> MCtx {
    let mut m = BTreeMap::new();
    m.insert("i".into(), V::Int(0));
    m.insert("s".into(), V::Bytes(b"a".to_vec()));
    m.insert("ip".into(), V::Ip("1.2.3.4".parse().unwrap()));
    for b in ["t", "u", "v", "w", "x", "y"] {
        m.insert(b.into(), V::Bool(false));
    }
    m
}

struct Nontrivial {
    both: u64,
    programs: u64,
}

pub fn run(tier: Tier, seed: u64) -> i32 {
    let run = Run::new(ID, "exploration", tier, seed);
    run.assume("values outside the listed pools are not explored");
    let nt = Mutex::new(Nontrivial { both: 0, programs: 0 });
    let note = |o: crate::prog::Outcome| {
        let mut n = nt.lock().unwrap();
        n.programs += 1;
        if o.trues > 0 && o.falses > 0 {
            n.both += 1;
        }
    };

    for optional in [true, false] {
        for nil_ne in [true, false] {
            let (tag, uni) = unis::scalar(optional, nil_ne);
            let base = base_ctx();

            // ---- (a) atom layer ------------------------------------------------------
            let ints = int_pool(seed);
            let byts = bytes_pool(seed);
            let ips = ip_pool(seed);
            {
                // Int
                let mut ctxs: Vec<MCtx> = ints.iter().map(|i| ctx1("i", Some(V::Int(*i)), &base)).collect();
                if optional {
                    ctxs.push(ctx1("i", None, &base));
                }
                let b = Bench::new(&tag, uni.clone(), ctxs);
                for op in ORDERING_OPS.iter().chain([CmpOp::BitAnd].iter()) {
                    for lit in &ints {
                        for form in [IntForm::Dec, IntForm::Hex, IntForm::Oct] {
                            if *lit < 0 && form != IntForm::Dec {
                                continue;
                            }
                            let e = Expr::cmp(Lhs::field("i"), *op, Rhs::Lit(Lit::Int(*lit, form)));
                            note(check_filter(&run, ID, &b, &e));
                        note(check_filter(&run, ID, &b, &Expr::not(e.clone())));
                            note(check_filter(&run, ID, &b, &Expr::not(e.clone())));
                            run.sample(3, || json!({"layer": "atom", "universe": tag, "filter": render(&e)}));
                        }
                    }
                }
                run.count("atom_int_programs", 1);
            }
            {
                let mut ctxs: Vec<MCtx> = byts.iter().map(|s| ctx1("s", Some(V::Bytes(s.clone())), &base)).collect();
                if optional {
                    ctxs.push(ctx1("s", None, &base));
                }
                let b = Bench::new(&tag, uni.clone(), ctxs);
                for op in ORDERING_OPS {
                    for lit in &byts {
                        let mut forms = vec![BytesForm::Quoted];
                        if lit.len() >= 2 {
                            forms.push(BytesForm::Hex(':'));
                        }
                        if raw_form_ok(lit, 1) {
                            forms.push(BytesForm::Raw(1));
                        }
                        for f in forms {
                            let e = Expr::cmp(Lhs::field("s"), op, Rhs::Lit(Lit::Bytes(lit.clone(), f)));
                            note(check_filter(&run, ID, &b, &e));
                            note(check_filter(&run, ID, &b, &Expr::not(e.clone())));
                        }
                    }
                }
            }
            {
                let mut ctxs: Vec<MCtx> = ips.iter().map(|s| ctx1("ip", Some(V::Ip(*s)), &base)).collect();
                if optional {
                    ctxs.push(ctx1("ip", None, &base));
                }
                let b = Bench::new(&tag, uni.clone(), ctxs);
                for op in ORDERING_OPS {
                    for lit in &ips {
                        let e = Expr::cmp(Lhs::field("ip"), op, Rhs::Lit(Lit::Ip(*lit)));
                        note(check_filter(&run, ID, &b, &e));
                    }
                }
            }
            {
                let mut ctxs: Vec<MCtx> = vec![ctx1("t", Some(V::Bool(true)), &base), ctx1("t", Some(V::Bool(false)), &base)];
                if optional {
                    ctxs.push(ctx1("t", None, &base));
                }
                let b = Bench::new(&tag, uni.clone(), ctxs);
                note(check_filter(&run, ID, &b, &Expr::IsTrue(Lhs::field("t"))));
                note(check_filter(&run, ID, &b, &Expr::not(Expr::IsTrue(Lhs::field("t")))));
            }

            // ---- (b) structure layer ---------------------------------------------------
            let max_ops = tier.pick(4usize, 5usize);
            let props = ["t", "u", "v", "w", "x", "y"];
            for k in 1..=max_ops {
                let n = k + 1;
                // all assignments of {absent?, true, false} to the n propositions
                let vals: Vec<Option<bool>> =
                    if optional { vec![None, Some(true), Some(false)] } else { vec![Some(true), Some(false)] };
                let mut ctxs = Vec::new();
                let total = vals.len().pow(n as u32);
                for a in 0..total {
                    let mut m = base.clone();
                    let mut x = a;
                    for p in props.iter().take(n) {
                        match vals[x % vals.len()] {
                            Some(b) => {
                                m.insert((*p).into(), V::Bool(b));
                            }
                            None => {
                                m.remove(*p);
                            }
                        }
                        x /= vals.len();
                    }
                    ctxs.push(m);
                }
                let b = Bench::new(&tag, uni.clone(), ctxs);
                let opseqs = 3usize.pow(k as u32);
                // 0..=2 nots per operand (0..=1 at the deepest bound, to keep the product tractable)
                let notbase = if k >= 5 { 2usize } else { 3usize };
                let notseqs = notbase.pow(n as u32);
                // parenthesisations: none, or one contiguous sub-chain [lo, hi] with hi > lo, not the whole
                let mut parens: Vec<Option<(usize, usize)>> = vec![None];
                for lo in 0..n {
                    for hi in lo + 1..n {
                        if !(lo == 0 && hi == n - 1) {
                            parens.push(Some((lo, hi)));
                        }
                    }
                }
                parens.push(Some((0, n - 1)));
                let jobs = opseqs * notseqs;
                par_for(jobs, ncpu(), |j| {
                    let mut ops = Vec::new();
                    let mut x = j % opseqs;
                    for _ in 0..k {
                        ops.push([LOp::And, LOp::Xor, LOp::Or][x % 3]);
                        x /= 3;
                    }
                    let mut nots = Vec::new();
                    let mut y = j / opseqs;
                    for _ in 0..n {
                        nots.push(y % notbase);
                        y /= notbase;
                    }
                    let operands: Vec<Expr> = (0..n)
                        .map(|i| {
                            let mut e = Expr::IsTrue(Lhs::field(props[i]));
                            for _ in 0..nots[i] {
                                e = Expr::not(e);
                            }
                            e
                        })
                        .collect();
                    for p in &parens {
                        let e = build_with_paren(&operands, &ops, *p);
                        debug_assert!(e.canonical());
                        let o = check_filter(&run, ID, &b, &e);
                        note(o);
                        if j == 7 {
                            run.sample(8, || json!({"layer": "structure", "universe": b.tag, "filter": render(&e), "assignments": b.ctxs.len()}));
                        }
                    }
                });
                run.count("structure_formulas", (jobs * parens.len()) as u64);
            }

            // ---- (c) mixed layer -------------------------------------------------------------
            let atoms = mixed_atoms();
            let mut ctxs = Vec::new();
            let ivals: Vec<Option<i64>> = {
                let mut v: Vec<Option<i64>> = vec![Some(i64::MIN), Some(-1), Some(0), Some(1), Some(i64::MAX)];
                if optional {
                    v.push(None)
                }
                v
            };
            let svals: Vec<Option<&[u8]>> = {
                let mut v: Vec<Option<&[u8]>> = vec![Some(b""), Some(b"a"), Some(b"ab"), Some(b"a\xff")];
                if optional {
                    v.push(None)
                }
                v
            };
            let ipvals: Vec<Option<IpAddr>> = {
                let mut v: Vec<Option<IpAddr>> =
                    vec![Some("1.2.3.4".parse().unwrap()), Some("1.2.3.5".parse().unwrap()), Some("::1".parse().unwrap())];
                if optional {
                    v.push(None)
                }
                v
            };
            for i in &ivals {
                for s in &svals {
                    for ip in &ipvals {
                        for t in [true, false] {
                            let mut m = base.clone();
                            m = ctx1("i", i.map(V::Int), &m);
                            m = ctx1("s", s.map(|s| V::Bytes(s.to_vec())), &m);
                            m = ctx1("ip", ip.map(V::Ip), &m);
                            m.insert("t".into(), V::Bool(t));
                            ctxs.push(m);
                        }
                    }
                }
            }
            let b = Bench::new(&tag, uni.clone(), ctxs);
            let max_mixed_ops = tier.pick(2usize, 3usize);
            let na = atoms.len();
            for k in 1..=max_mixed_ops {
                let n = k + 1;
                let jobs = na.pow(n as u32) * 3usize.pow(k as u32);
                par_for(jobs, ncpu(), |j| {
                    let mut x = j;
                    let mut operands = Vec::new();
                    for _ in 0..n {
                        operands.push(atoms[x % na].clone());
                        x /= na;
                    }
                    let mut ops = Vec::new();
                    for _ in 0..k {
                        ops.push([LOp::And, LOp::Xor, LOp::Or][x % 3]);
                        x /= 3;
                    }
                    let mut shapes: Vec<Option<(usize, usize)>> = vec![None];
                    for lo in 0..n {
                        for hi in lo + 1..n {
                            if !(lo == 0 && hi == n - 1) {
                                shapes.push(Some((lo, hi)));
                            }
                        }
                    }
                    for p in shapes {
                        let e = build_with_paren(&operands, &ops, p);
                        note(check_filter(&run, ID, &b, &e));
                        if j == 11 {
                            run.sample(12, || json!({"layer": "mixed", "universe": b.tag, "filter": render(&e), "contexts": b.ctxs.len()}));
                        }
                    }
                });
                run.count("mixed_formulas", jobs as u64);
            }
        }
    }
    let n = nt.lock().unwrap();
    run.set("programs", json!(n.programs));
    run.set("bounds", json!({
        "structure_max_binary_operators": tier.pick(4, 5),
        "structure_nots_per_operand": "0..=2 (0..=1 at 5 operators)",
        "mixed_max_binary_operators": tier.pick(2, 3),
        "configs": "optional x nil_not_equal (4)",
        "int_pool": int_pool(seed), "bytes_pool_len": bytes_pool(seed).len(), "ip_pool": ip_pool(seed).iter().map(|i| i.to_string()).collect::<Vec<_>>(),
    }));
    let both = n.both;
    drop(n);
    run.finish(
        both,
        "every formula of the three layers x every context of its pool; non-trivial = formula observed both true and false over its contexts",
        true,
        &[("structure_formulas", 100), ("mixed_formulas", 100)],
    )
}

fn mixed_atoms() -> Vec<Expr> {
    let i = |op, v| Expr::cmp(Lhs::field("i"), op, Rhs::Lit(Lit::int(v)));
    let s = |op, v: &[u8]| Expr::cmp(Lhs::field("s"), op, Rhs::Lit(Lit::str(v)));
    let ip = |op, v: &str| Expr::cmp(Lhs::field("ip"), op, Rhs::Lit(Lit::Ip(v.parse().unwrap())));
    vec![
        i(CmpOp::Eq, 0),
        i(CmpOp::Ne, 0),
        i(CmpOp::Lt, 1),
        i(CmpOp::Ge, -1),
        i(CmpOp::BitAnd, 1),
        s(CmpOp::Eq, b"a"),
        s(CmpOp::Ne, b"a"),
        s(CmpOp::Lt, b"ab"),
        ip(CmpOp::Eq, "1.2.3.4"),
        ip(CmpOp::Ne, "::1"),
        ip(CmpOp::Le, "1.2.3.4"),
        Expr::not(Expr::IsTrue(Lhs::field("t"))),
    ]
}

/// Reference association: wrap [lo..=hi] in parentheses (if any), then split the flat
/// operand/operator list at the lowest-precedence operator present (or, then xor, then and).
pub fn build_with_paren(operands: &[Expr], ops: &[LOp], paren: Option<(usize, usize)>) -> Expr {
    match paren {
        None => build_flat(operands, ops),
        Some((lo, hi)) => {
            let inner = build_flat(&operands[lo..=hi], &ops[lo..hi]);
            let mut new_operands: Vec<Expr> = operands[..lo].to_vec();
            new_operands.push(Expr::paren(inner));
            new_operands.extend_from_slice(&operands[hi + 1..]);
            let mut new_ops: Vec<LOp> = ops[..lo].to_vec();
            new_ops.extend_from_slice(&ops[hi..]);
            build_flat(&new_operands, &new_ops)
        }
    }
}

pub fn build_flat(operands: &[Expr], ops: &[LOp]) -> Expr {
    assert_eq!(operands.len(), ops.len() + 1);
    if ops.is_empty() {
        return operands[0].clone();
    }
    let lowest = *ops.iter().min().unwrap(); // Or < Xor < And
    let mut items = Vec::new();
    let mut start = 0;
    for (i, op) in ops.iter().enumerate() {
        if *op == lowest {
            items.push(build_flat(&operands[start..=i], &ops[start..i]));
            start = i + 1;
        }
    }
    items.push(build_flat(&operands[start..], &ops[start..]));
    Expr::Chain(lowest, items)
}
