//! C09 — `in {...}` membership (shape P, exhaustive over small domains).

use crate::ast::*;
use crate::ev::{Run, Tier, ncpu, par_for};
use crate::prog::{Bench, Outcome, check_filter};
use crate::uni::MCtx;
use crate::unis;
use crate::val::{Ty, V};
use serde_json::json;
use std::net::{IpAddr, Ipv4Addr};
use std::sync::atomic::{AtomicU64, Ordering};

pub const ID: &str = "C09";

fn ctx_with(name: &str, v: Option<V>) -> MCtx {
    let mut m = MCtx::new();
    if let Some(v) = v {
        m.insert(name.to_string(), v);
    }
    m
}

fn v4(s: &str) -> IpAddr {
    s.parse().unwrap()
}

/// If [lo, hi] is exactly a CIDR block, its prefix length.
fn cidr_prefix(lo: u32, hi: u32) -> Option<u8> {
    let size = (hi as u64) - (lo as u64) + 1;
    if !size.is_power_of_two() {
        return None;
    }
    let host_bits = size.trailing_zeros();
    if host_bits == 32 {
        return if lo == 0 { Some(0) } else { None };
    }
    if lo & ((1u32 << host_bits) - 1) != 0 {
        return None;
    }
    Some((32 - host_bits) as u8)
}

pub fn run(tier: Tier, seed: u64) -> i32 {
    let run = Run::new(ID, "exploration", tier, seed);
    run.assume("integer and address endpoints outside the 7-point domains are not explored (except seed-derived extras)");
    let nontrivial = AtomicU64::new(0);
    let programs = AtomicU64::new(0);
    let note = |o: Outcome| {
        programs.fetch_add(1, Ordering::Relaxed);
        if o.trues > 0 && o.falses > 0 {
            nontrivial.fetch_add(1, Ordering::Relaxed);
        }
    };
    let (tag, uni) = unis::scalar(true, true);
    let max_len = tier.pick(4usize, 5usize);

    // ---------------- integers ----------------
    {
        let mut dom: Vec<i64> = vec![i64::MIN, i64::MIN + 1, -1, 0, 1, i64::MAX - 1, i64::MAX];
        if seed != 0 {
            dom.push((seed as i64).wrapping_mul(0x2545F4914F6CDD1D) >> 3);
            dom.sort();
            dom.dedup();
        }
        let mut probes: Vec<i64> = dom.clone();
        for w in dom.windows(2) {
            // a point strictly between neighbours when there is one
            let mid = ((w[0] as i128 + w[1] as i128) / 2) as i64;
            if mid != w[0] && mid != w[1] {
                probes.push(mid);
            }
        }
        probes.sort();
        probes.dedup();
        let mut items = Vec::new();
        for (a, lo) in dom.iter().enumerate() {
            for hi in &dom[a..] {
                items.push(IntItem { lo: *lo, hi: if hi == lo { None } else { Some(*hi) } });
            }
        }
        // explicit degenerate range a..a
        items.push(IntItem { lo: 0, hi: Some(0) });
        let mut ctxs: Vec<MCtx> = probes.iter().map(|p| ctx_with("i", Some(V::Int(*p)))).collect();
        ctxs.push(ctx_with("i", None));
        let b = Bench::new(&tag, uni.clone(), ctxs);
        let n = items.len();
        for len in 0..=max_len {
            let jobs = n.pow(len as u32);
            par_for(jobs, ncpu(), |j| {
                let mut x = j;
                let mut list = Vec::new();
                for _ in 0..len {
                    list.push(items[x % n].clone());
                    x /= n;
                }
                let e = Expr::cmp(Lhs::field("i"), CmpOp::In, Rhs::IntSet(list));
                note(check_filter(&run, ID, &b, &e));
                if j == 1234 % jobs.max(1) {
                    run.sample(6, || json!({"family": "int", "filter": render(&e), "probes": b.ctxs.len()}));
                }
            });
            run.count("int_lists", jobs as u64);
        }
        // long lists: all ranges in fixed orders
        let mut orders: Vec<Vec<IntItem>> = Vec::new();
        let sorted = items.clone();
        orders.push(sorted.clone());
        orders.push(sorted.iter().rev().cloned().collect());
        orders.push(sorted.iter().step_by(2).chain(sorted.iter().skip(1).step_by(2)).cloned().collect());
        orders.push(sorted.iter().chain(sorted.iter()).cloned().collect());
        let mut by_end = sorted.clone();
        by_end.sort_by_key(|i| (i.hi.unwrap_or(i.lo), std::cmp::Reverse(i.lo)));
        orders.push(by_end);
        let mut by_len = sorted.clone();
        by_len.sort_by_key(|i| (i.hi.unwrap_or(i.lo) as i128 - i.lo as i128, i.lo));
        orders.push(by_len);
        // every proper "all but one" sub-list of the sorted order (drop one item at a time)
        for k in 0..sorted.len() {
            let mut l = sorted.clone();
            l.remove(k);
            orders.push(l);
        }
        for l in orders {
            let e = Expr::cmp(Lhs::field("i"), CmpOp::In, Rhs::IntSet(l));
            note(check_filter(&run, ID, &b, &e));
            run.count("int_long_lists", 1);
        }
        run.set("int_domain", json!(dom));
        run.set("int_probes", json!(probes));
    }

    // ---------------- addresses ----------------
    {
        let dom4: Vec<u32> = ["0.0.0.0", "0.0.0.1", "10.0.0.0", "10.0.0.255", "10.0.1.0", "255.255.255.254", "255.255.255.255"]
            .iter()
            .map(|s| u32::from(s.parse::<Ipv4Addr>().unwrap()))
            .collect();
        let mut items: Vec<IpItem> = Vec::new();
        for (a, lo) in dom4.iter().enumerate() {
            for hi in &dom4[a..] {
                let (l, h) = (IpAddr::V4(Ipv4Addr::from(*lo)), IpAddr::V4(Ipv4Addr::from(*hi)));
                if lo == hi {
                    items.push(IpItem::Addr(l));
                } else {
                    items.push(IpItem::Range(l, h));
                    if let Some(p) = cidr_prefix(*lo, *hi) {
                        items.push(IpItem::Cidr(l, p));
                    }
                }
            }
        }
        items.push(IpItem::Cidr(v4("10.0.0.0"), 8));
        items.push(IpItem::Cidr(v4("::"), 0));
        items.push(IpItem::Addr(v4("::1")));
        items.push(IpItem::Cidr(v4("::ffff:10.0.0.0"), 120));
        items.push(IpItem::Range(v4("::1"), v4("::ffff:0:0")));
        let mut probes: Vec<IpAddr> = dom4.iter().map(|x| IpAddr::V4(Ipv4Addr::from(*x))).collect();
        for s in ["0.0.0.2", "9.255.255.255", "10.0.0.7", "10.0.0.254", "10.0.1.1", "10.200.0.1", "128.0.0.0", "255.255.255.253",
            "::", "::1", "::2", "::ffff:10.0.0.5", "::ffff:10.0.1.0", "::a00:5", "ffff::1"]
        {
            probes.push(v4(s));
        }
        let mut ctxs: Vec<MCtx> = probes.iter().map(|p| ctx_with("ip", Some(V::Ip(*p)))).collect();
        ctxs.push(ctx_with("ip", None));
        let b = Bench::new(&tag, uni.clone(), ctxs);
        let n = items.len();
        let ip_max = tier.pick(3usize, 4usize).min(max_len);
        for len in 0..=ip_max {
            let jobs = n.pow(len as u32);
            par_for(jobs, ncpu(), |j| {
                let mut x = j;
                let mut list = Vec::new();
                for _ in 0..len {
                    list.push(items[x % n].clone());
                    x /= n;
                }
                let e = Expr::cmp(Lhs::field("ip"), CmpOp::In, Rhs::IpSet(list));
                note(check_filter(&run, ID, &b, &e));
                if j == 777 % jobs.max(1) {
                    run.sample(10, || json!({"family": "ip", "filter": render(&e), "probes": b.ctxs.len()}));
                }
            });
            run.count("ip_lists", jobs as u64);
        }
        // long lists
        let all = items.clone();
        let mut orders = vec![all.clone(), all.iter().rev().cloned().collect::<Vec<_>>()];
        orders.push(all.iter().step_by(2).chain(all.iter().skip(1).step_by(2)).cloned().collect());
        for k in 0..all.len() {
            let mut l = all.clone();
            l.remove(k);
            orders.push(l);
        }
        for l in orders {
            let e = Expr::cmp(Lhs::field("ip"), CmpOp::In, Rhs::IpSet(l));
            note(check_filter(&run, ID, &b, &e));
            run.count("ip_long_lists", 1);
        }
        run.set("ip_items", json!(items.iter().map(render_ip_item).collect::<Vec<_>>()));
        run.set("ip_probes", json!(probes.iter().map(|p| p.to_string()).collect::<Vec<_>>()));
    }

    // ---------------- byte strings ----------------
    {
        let pool: Vec<Vec<u8>> =
            vec![b"".to_vec(), b"a".to_vec(), b"ab".to_vec(), b"abc".to_vec(), b"b".to_vec(), b"a\xff".to_vec()];
        let mut ctxs: Vec<MCtx> = pool.iter().map(|p| ctx_with("s", Some(V::Bytes(p.clone())))).collect();
        ctxs.push(ctx_with("s", Some(V::Bytes(b"abcd".to_vec()))));
        ctxs.push(ctx_with("s", None));
        let b = Bench::new(&tag, uni.clone(), ctxs);
        let n = pool.len();
        for len in 0..=max_len.min(4) {
            let jobs = n.pow(len as u32);
            par_for(jobs, ncpu(), |j| {
                let mut x = j;
                let mut list = Vec::new();
                for k in 0..len {
                    let s = pool[x % n].clone();
                    x /= n;
                    // alternate literal forms
                    let form = if s.len() >= 2 && (j + k) % 3 == 1 {
                        BytesForm::Hex(':')
                    } else if (j + k) % 3 == 2 && raw_form_ok(&s, 0) {
                        BytesForm::Raw(0)
                    } else {
                        BytesForm::Quoted
                    };
                    list.push((s, form));
                }
                let e = Expr::cmp(Lhs::field("s"), CmpOp::In, Rhs::BytesSet(list));
                note(check_filter(&run, ID, &b, &e));
                if j == 99 % jobs.max(1) {
                    run.sample(14, || json!({"family": "bytes", "filter": render(&e), "probes": b.ctxs.len()}));
                }
            });
            run.count("bytes_lists", jobs as u64);
        }
    }

    // ---------------- many disjoint items (more than a small-set fast path would hold) ----------
    {
        let ctxs: Vec<MCtx> = [0i64, 1, 2, 15, 16, 17, 99, 100, 101, 150, 200, 201, 299, 300, 350, 400, 401, i64::MAX]
            .iter()
            .map(|i| ctx_with("i", Some(V::Int(*i))))
            .collect();
        let b = Bench::new(&tag, uni.clone(), ctxs);
        for n in [7usize, 8, 9, 10, 17, 33] {
            // n disjoint singletons, then ranges at the low end, in the middle and at the high end
            let singles: Vec<IntItem> = (0..n).map(|k| IntItem { lo: 1 + 2 * k as i64, hi: None }).collect();
            for extra in [vec![IntItem { lo: 100, hi: Some(200) }], vec![IntItem { lo: 300, hi: Some(400) }, IntItem { lo: 100, hi: Some(200) }], vec![IntItem { lo: -5, hi: Some(0) }, IntItem { lo: 300, hi: Some(i64::MAX) }]] {
                for front in [false, true] {
                    let mut items = singles.clone();
                    if front {
                        let mut e = extra.clone();
                        e.extend(items);
                        items = e;
                    } else {
                        items.extend(extra.clone());
                    }
                    let e = Expr::cmp(Lhs::field("i"), CmpOp::In, Rhs::IntSet(items));
                    note(check_filter(&run, ID, &b, &e));
                    run.count("many_item_lists", 1);
                }
            }
        }
    }

    // ---------------- long byte strings (lengths around powers of two) ----------------
    {
        let lens = [15usize, 16, 17, 31, 32, 33, 63, 64, 65, 127, 128, 129, 255, 256, 257, 1000];
        let mut pool: Vec<Vec<u8>> = Vec::new();
        for l in lens {
            pool.push(vec![b'a'; l]);
            let mut t = vec![b'a'; l];
            t[l - 1] = b'b';
            pool.push(t);
        }
        let mut ctxs: Vec<MCtx> = pool.iter().map(|p| ctx_with("s", Some(V::Bytes(p.clone())))).collect();
        ctxs.push(ctx_with("s", Some(V::Bytes(vec![]))));
        ctxs.push(ctx_with("s", None));
        let b = Bench::new(&tag, uni.clone(), ctxs);
        let n = pool.len();
        let mut lists: Vec<Vec<usize>> = (0..n).map(|i| vec![i]).collect();
        for i in 0..n {
            for j in i + 1..n {
                lists.push(vec![i, j]);
            }
        }
        par_for(lists.len(), ncpu(), |k| {
            let items: Vec<(Vec<u8>, BytesForm)> = lists[k]
                .iter()
                .enumerate()
                .map(|(pos, i)| (pool[*i].clone(), if (k + pos) % 2 == 0 { BytesForm::Quoted } else { BytesForm::Hex(':') }))
                .collect();
            let e = Expr::cmp(Lhs::field("s"), CmpOp::In, Rhs::BytesSet(items));
            note(check_filter(&run, ID, &b, &e));
        });
        run.count("long_bytes_lists", lists.len() as u64);
    }

    // ---------------- under [*] ----------------
    {
        let (ctag, cuni) = unis::containers(true);
        let arrs: Vec<Option<V>> = vec![
            None,
            Some(V::arr(Ty::Int, vec![])),
            Some(V::arr(Ty::Int, vec![V::Int(1)])),
            Some(V::arr(Ty::Int, vec![V::Int(0), V::Int(5), V::Int(-1), V::Int(i64::MAX)])),
        ];
        let ctxs: Vec<MCtx> = arrs.into_iter().map(|v| ctx_with("xi", v)).collect();
        let b = Bench::new(&ctag, cuni, ctxs);
        let lists: Vec<Vec<IntItem>> = vec![
            vec![],
            vec![IntItem { lo: 1, hi: None }],
            vec![IntItem { lo: -1, hi: Some(1) }, IntItem { lo: 0, hi: Some(0) }],
            vec![IntItem { lo: 0, hi: Some(10) }, IntItem { lo: 3, hi: Some(5) }],
            vec![IntItem { lo: i64::MIN, hi: Some(i64::MAX) }],
        ];
        for l in lists {
            let inner = Expr::cmp(Lhs::fieldp("xi", vec![Idx::Each]), CmpOp::In, Rhs::IntSet(l.clone()));
            note(check_filter(&run, ID, &b, &Expr::any(QArg::Logical(inner.clone()))));
            note(check_filter(&run, ID, &b, &Expr::all(QArg::Logical(inner))));
            let one = Expr::cmp(Lhs::fieldp("xi", vec![Idx::N(1)]), CmpOp::In, Rhs::IntSet(l));
            note(check_filter(&run, ID, &b, &one));
            run.count("mapped_lists", 3);
        }
    }

    run.set("programs", json!(programs.load(Ordering::Relaxed)));
    run.set("bounds", json!({"max_list_len_int_bytes": max_len, "max_list_len_ip": tier.pick(3, 4)}));
    run.finish(
        nontrivial.load(Ordering::Relaxed),
        "all lists up to the length bound over all ranges of the small domains x all probes (+ absent); non-trivial = list with some probe inside and some probe outside",
        true,
        &[("int_lists", 1000), ("ip_lists", 1000), ("bytes_lists", 100)],
    )
}
