//! C02 — indexing, map-each, boolean-array logic, any/all (shape P, exhaustive).

use crate::ast::*;
use crate::ev::{Run, Tier, ncpu, par_for};
use crate::prog::{Bench, Outcome, check_filter, check_value};
use crate::sem::{expr_ty, lhs_ty};
use crate::uni::MCtx;
use crate::unis;
use crate::val::{Ty, V};
use serde_json::json;
use std::collections::BTreeMap;
use std::sync::atomic::{AtomicU64, Ordering};

pub const ID: &str = "C02";

/// Non-absent shape pool of a type: empty, singleton, ragged (for containers).
pub fn pool(t: &Ty) -> Vec<V> {
    match t {
        Ty::Int => vec![V::Int(1), V::Int(2), V::Int(0)],
        Ty::Bool => vec![V::Bool(true), V::Bool(false)],
        Ty::Bytes => vec![V::Bytes(b"a".to_vec()), V::Bytes(b"b".to_vec()), V::Bytes(vec![])],
        Ty::Ip => vec![V::Ip("1.2.3.4".parse().unwrap()), V::Ip("::1".parse().unwrap())],
        Ty::Arr(e) => {
            let p = pool(e);
            // ragged: a short element, the shortest, the longest, the shortest again - so that under a
            // trailing index a miss is followed by a hit and by another miss
            let n = p.len();
            let ragged: Vec<V> = vec![p[1 % n].clone(), p[0].clone(), p[n - 1].clone(), p[0].clone()];
            vec![V::Arr((**e).clone(), vec![]), V::Arr((**e).clone(), vec![p[0].clone()]), V::Arr((**e).clone(), ragged)]
        }
        Ty::Map(e) => {
            let p = pool(e);
            let mut big = BTreeMap::new();
            big.insert(b"a".to_vec(), p[p.len() - 1].clone());
            big.insert(b"b".to_vec(), p[0].clone());
            big.insert(b"".to_vec(), p[p.len() / 2].clone());
            big.insert(b"\xff".to_vec(), p[0].clone());
            let mut one = BTreeMap::new();
            one.insert(b"a".to_vec(), p[0].clone());
            vec![V::Map((**e).clone(), BTreeMap::new()), V::Map((**e).clone(), one), V::Map((**e).clone(), big)]
        }
    }
}

/// All index paths of every length over a type.
pub fn paths(t: &Ty, with_each: bool) -> Vec<Vec<Idx>> {
    let mut out = vec![vec![]];
    let steps: Vec<(Idx, Ty)> = match t {
        Ty::Arr(e) => {
            let mut v: Vec<(Idx, Ty)> =
                [0u32, 1, 3, 65536, 65537, u32::MAX].iter().map(|n| (Idx::N(*n), (**e).clone())).collect();
            if with_each {
                v.push((Idx::Each, (**e).clone()));
            }
            v
        }
        Ty::Map(e) => {
            let mut v: Vec<(Idx, Ty)> =
                ["a", "b", "", "zz"].iter().map(|k| (Idx::K((*k).to_string()), (**e).clone())).collect();
            if with_each {
                v.push((Idx::Each, (**e).clone()));
            }
            v
        }
        _ => vec![],
    };
    for (i, sub) in steps {
        for rest in paths(&sub, with_each) {
            let mut p = vec![i.clone()];
            p.extend(rest);
            out.push(p);
        }
    }
    out
}

fn leaf_cmps(t: &Ty) -> Vec<(CmpOp, Rhs)> {
    match t {
        Ty::Int => vec![
            (CmpOp::Eq, Rhs::Lit(Lit::int(1))),
            (CmpOp::Ne, Rhs::Lit(Lit::int(1))),
            (CmpOp::Lt, Rhs::Lit(Lit::int(2))),
            (CmpOp::Ge, Rhs::Lit(Lit::int(1))),
            (CmpOp::BitAnd, Rhs::Lit(Lit::int(2))),
            (CmpOp::In, Rhs::IntSet(vec![IntItem { lo: 1, hi: Some(2) }])),
        ],
        Ty::Bytes => vec![
            (CmpOp::Eq, Rhs::Lit(Lit::str(b"a"))),
            (CmpOp::Ne, Rhs::Lit(Lit::str(b"a"))),
            (CmpOp::Gt, Rhs::Lit(Lit::str(b""))),
            (CmpOp::Contains, Rhs::Lit(Lit::str(b"a"))),
        ],
        Ty::Ip => vec![
            (CmpOp::Eq, Rhs::Lit(Lit::Ip("1.2.3.4".parse().unwrap()))),
            (CmpOp::Ne, Rhs::Lit(Lit::Ip("1.2.3.4".parse().unwrap()))),
        ],
        _ => vec![],
    }
}

/// Every boolean / boolean-array expression with `l` as its only operand.
fn single_operand_exprs(u: &crate::uni::Uni, l: &Lhs) -> Vec<Expr> {
    let t = match lhs_ty(u, l) {
        Ok(t) => t,
        Err(_) => return vec![],
    };
    let mut base: Vec<Expr> = Vec::new();
    if t == Ty::Bool {
        base.push(Expr::IsTrue(l.clone()));
    } else if t.elem() == Some(&Ty::Bool) && matches!(t, Ty::Arr(_)) && l.each_count() == 0 {
        base.push(Expr::IsTrue(l.clone()));
    } else {
        for (op, rhs) in leaf_cmps(&t) {
            base.push(Expr::cmp(l.clone(), op, rhs));
        }
    }
    let mut out = Vec::new();
    for b in base {
        match expr_ty(u, &b) {
            Ok(Ty::Bool) => {
                out.push(b.clone());
                out.push(Expr::not(b.clone()));
                out.push(Expr::paren(b));
            }
            Ok(Ty::Arr(_)) => {
                // Arr(Bool): observe through quantifiers
                let arg = if arg_form_ok(&b) { b.clone() } else { Expr::paren(b.clone()) };
                for q in [QOp::Any, QOp::All] {
                    out.push(Expr::Quant(q, Box::new(QArg::Logical(arg.clone()))));
                    out.push(Expr::Quant(q, Box::new(QArg::Logical(Expr::not(b.clone())))));
                    out.push(Expr::not(Expr::Quant(q, Box::new(QArg::Logical(arg.clone())))));
                }
                if let Expr::IsTrue(l) = &b
                    && l.each_count() == 0
                {
                    // direct boolean-array argument: absent => false for both quantifiers
                    out.push(Expr::any(QArg::Lhs(l.clone())));
                    out.push(Expr::all(QArg::Lhs(l.clone())));
                }
            }
            _ => {}
        }
    }
    out
}

pub fn run(tier: Tier, seed: u64) -> i32 {
    let run = Run::new(ID, "exploration", tier, seed);
    run.assume("container values are drawn from the shape pools (absent, empty, singleton, ragged, non-UTF-8 key); indexes from {0,1,3,65536,65537,u32::MAX,*} / {\"a\",\"b\",\"\",\"zz\",*}");
    let nontrivial = AtomicU64::new(0);
    let programs = AtomicU64::new(0);
    let note = |o: Outcome| {
        programs.fetch_add(1, Ordering::Relaxed);
        if o.trues > 0 && o.falses > 0 {
            nontrivial.fetch_add(1, Ordering::Relaxed);
        }
    };

    for nil_ne in [true, false] {
        let (tag, uni) = unis::containers(nil_ne);

        // ---- (1) every index path over every container field, one operand ----------------
        let fields: Vec<(String, Ty)> = uni
            .fields
            .iter()
            .filter(|(_, t, _)| t.depth() >= 1)
            .map(|(n, t, _)| (n.clone(), t.clone()))
            .collect();
        for (name, ty) in &fields {
            let mut ctxs: Vec<MCtx> = vec![MCtx::new()];
            for v in pool(ty) {
                let mut m = MCtx::new();
                m.insert(name.clone(), v);
                ctxs.push(m);
            }
            let b = Bench::new(&tag, uni.clone(), ctxs);
            let all_paths = paths(ty, true);
            par_for(all_paths.len(), ncpu(), |pi| {
                let l = Lhs::fieldp(name, all_paths[pi].clone());
                for e in single_operand_exprs(&b.uni, &l) {
                    note(check_filter(&run, ID, &b, &e));
                    if pi == 17 {
                        run.sample(6, || json!({"layer": "paths", "universe": b.tag, "filter": render(&e), "contexts": b.ctxs.len()}));
                    }
                }
                if l.each_count() == 0 {
                    check_value(&run, ID, &b, &l);
                    run.count("value_expressions", 1);
                }
                // exact result vector of a mapped comparison, observed through fa()
                if l.each_count() > 0 {
                    if let Ok(t) = lhs_ty(&b.uni, &l) {
                        if let Some((op, rhs)) = leaf_cmps(&t).into_iter().next() {
                            let inner = Expr::cmp(l.clone(), op, rhs);
                            check_value(&run, ID, &b, &Lhs::call("fa", vec![Arg::Logical(inner)]));
                            run.count("vector_observations", 1);
                        }
                    }
                }
            });
            run.count("paths", all_paths.len() as u64);
        }

        // ---- (1b) the same paths over a function result (identity functions on containers) ---
        {
            let (tag_id, uni_id) = unis::containers_id(nil_ne);
            for (fname, field) in unis::ID_FNS {
                let ty = uni_id.fields.iter().find(|(n, _, _)| n == field).map(|(_, t, _)| t.clone()).expect("field");
                let mut ctxs: Vec<MCtx> = vec![MCtx::new()];
                for v in pool(&ty) {
                    let mut m = MCtx::new();
                    m.insert(field.to_string(), v);
                    ctxs.push(m);
                }
                let b = Bench::new(&tag_id, uni_id.clone(), ctxs);
                let all_paths = paths(&ty, true);
                par_for(all_paths.len(), ncpu(), |pi| {
                    let l = Lhs::callp(fname, vec![Arg::Lhs(Lhs::field(field))], all_paths[pi].clone());
                    for e in single_operand_exprs(&b.uni, &l) {
                        note(check_filter(&run, ID, &b, &e));
                        run.count("function_result_path_filters", 1);
                        if pi == 5 {
                            run.sample(8, || json!({"layer": "paths over a function result", "universe": b.tag, "filter": render(&e), "contexts": b.ctxs.len()}));
                        }
                    }
                    if l.each_count() == 0 {
                        check_value(&run, ID, &b, &l);
                    }
                });
                run.count("function_result_paths", all_paths.len() as u64);
            }
        }

        // ---- (2) element-wise logic over operands of unequal lengths -----------------------
        // operands (all of type Array(Bool)) and the fields they read
        let operands: Vec<Expr> = vec![
            Expr::cmp(Lhs::fieldp("xi", vec![Idx::Each]), CmpOp::Eq, Rhs::Lit(Lit::int(1))),
            Expr::IsTrue(Lhs::field("xb")),
            Expr::IsTrue(Lhs::field("yb")),
            Expr::cmp(Lhs::fieldp("mi", vec![Idx::Each]), CmpOp::Lt, Rhs::Lit(Lit::int(2))),
            Expr::cmp(Lhs::fieldp("xxi", vec![Idx::Each, Idx::Each]), CmpOp::Ge, Rhs::Lit(Lit::int(2))),
        ];
        // value pools with lengths 0..3 and mixed truth values
        let ints = |v: &[i64]| V::Arr(Ty::Int, v.iter().map(|i| V::Int(*i)).collect());
        let bools = |v: &[bool]| V::Arr(Ty::Bool, v.iter().map(|b| V::Bool(*b)).collect());
        let xi_vals: Vec<Option<V>> = vec![None, Some(ints(&[])), Some(ints(&[1])), Some(ints(&[0, 1])), Some(ints(&[1, 0, 1]))];
        let xb_vals: Vec<Option<V>> = vec![None, Some(bools(&[])), Some(bools(&[false])), Some(bools(&[true, false, true]))];
        let yb_vals: Vec<Option<V>> = vec![None, Some(bools(&[true])), Some(bools(&[false, true])), Some(bools(&[true, true, false, true]))];
        let mi_vals: Vec<Option<V>> = vec![
            None,
            Some(V::map(Ty::Int, vec![])),
            Some(V::map(Ty::Int, vec![(b"k", V::Int(5)), (b"a", V::Int(1))])),
            Some(V::map(Ty::Int, vec![(b"c", V::Int(0)), (b"b", V::Int(9)), (b"a", V::Int(1))])),
        ];
        let xxi_vals: Vec<Option<V>> = vec![
            None,
            Some(V::arr(Ty::arr(Ty::Int), vec![ints(&[2]), ints(&[]), ints(&[1, 3])])),
        ];
        let mut ctxs = Vec::new();
        for a in &xi_vals {
            for b_ in &xb_vals {
                for c in &yb_vals {
                    for d in &mi_vals {
                        for e in &xxi_vals {
                            let mut m = MCtx::new();
                            for (n, v) in [("xi", a), ("xb", b_), ("yb", c), ("mi", d), ("xxi", e)] {
                                if let Some(v) = v {
                                    m.insert(n.to_string(), v.clone());
                                }
                            }
                            ctxs.push(m);
                        }
                    }
                }
            }
        }
        let b = Bench::new(&tag, uni.clone(), ctxs);
        let no = operands.len();
        let max_ops = tier.pick(2usize, 3usize);
        for k in 1..=max_ops {
            let n = k + 1;
            let jobs = no.pow(n as u32) * 3usize.pow(k as u32);
            par_for(jobs, ncpu(), |j| {
                let mut x = j;
                let mut ops_ = Vec::new();
                let mut items = Vec::new();
                for _ in 0..n {
                    items.push(operands[x % no].clone());
                    x /= no;
                }
                for _ in 0..k {
                    ops_.push([LOp::And, LOp::Xor, LOp::Or][x % 3]);
                    x /= 3;
                }
                // optional negation of the middle/last operand and parenthesised operands
                let variants: Vec<Vec<Expr>> = vec![
                    items.clone(),
                    items.iter().enumerate().map(|(i, e)| if i == n - 1 { Expr::not(e.clone()) } else { e.clone() }).collect(),
                    items.iter().enumerate().map(|(i, e)| if i == 0 { Expr::paren(e.clone()) } else { Expr::not(Expr::paren(e.clone())) }).collect(),
                ];
                for v in variants {
                    let chain = super::c01::build_flat(&v, &ops_);
                    let arg = Expr::paren(chain.clone());
                    for q in [QOp::Any, QOp::All] {
                        let e = Expr::Quant(q, Box::new(QArg::Logical(arg.clone())));
                        note(check_filter(&run, ID, &b, &e));
                        if j == 31 {
                            run.sample(12, || json!({"layer": "elementwise", "universe": b.tag, "filter": render(&e), "contexts": b.ctxs.len()}));
                        }
                    }
                    // the exact vector
                    check_value(&run, ID, &b, &Lhs::call("fa", vec![Arg::Logical(arg)]));
                }
            });
            run.count("elementwise_chains", (jobs * 3) as u64);
        }
    }
    run.set("programs", json!(programs.load(Ordering::Relaxed)));
    run.set("bounds", json!({"max_container_depth": 3, "elementwise_max_binary_operators": tier.pick(2, 3)}));
    run.finish(
        nontrivial.load(Ordering::Relaxed),
        "every index path (all lengths, all index choices) over every container field x operators x wrappers x every shape-pool context; every chain of array-valued operands of unequal lengths; non-trivial = filter observed both true and false",
        true,
        &[("paths", 500), ("elementwise_chains", 100), ("value_expressions", 50)],
    )
}
