//! C16 — the scheme registry (shape H: BFS over registration histories, model checking).
//!
//! Every transition replays the history on a fresh real `SchemeBuilder`; states are
//! deduplicated on the registry *observed* from the built scheme.

use crate::ev::{Run, Tier, guarded, ncpu, par_for};
use crate::uni::fn_spec;
use serde::{Deserialize, Serialize};
use serde_json::json;
use std::collections::HashSet;
use std::hash::{Hash, Hasher};
use std::sync::Mutex;
use wirefilter::{
    AlwaysList, GetType, IdentifierRedefinitionError, NeverList, Scheme, SchemeBuilder, SimpleFunctionArgKind,
    SimpleFunctionDefinition, SimpleFunctionImpl, SimpleFunctionParam, Type,
};

pub const ID: &str = "C16";

const NAMES: [&str; 6] = ["x", "x.y", "x.y.z", "X", "xy", "x_y"];

#[derive(Clone, Copy, Debug, PartialEq, Eq, Hash, PartialOrd, Ord, Serialize, Deserialize)]
pub enum Op {
    Field(usize),
    OptField(usize),
    Function(usize),
    ListIntAlways,
    ListBytesNever,
    ListIntNever,
}

fn ops() -> Vec<Op> {
    let mut v = Vec::new();
    for i in 0..NAMES.len() {
        v.push(Op::Field(i));
        v.push(Op::OptField(i));
        v.push(Op::Function(i));
    }
    v.extend([Op::ListIntAlways, Op::ListBytesNever, Op::ListIntNever]);
    v
}

#[derive(Clone, Debug, PartialEq, Eq)]
enum Entry {
    Field { ty: Type, optional: bool },
    Function,
}

/// The boring reference registry.
#[derive(Clone, Debug, Default, PartialEq, Eq)]
struct Model {
    entries: Vec<(String, Entry)>,
    lists: Vec<Type>,
}

#[derive(Clone, Copy, Debug, PartialEq, Eq)]
enum Outcome {
    Ok,
    FieldExists,
    FunctionExists,
    ListExists,
}

impl Model {
    fn name_taken(&self, n: &str) -> Option<Outcome> {
        self.entries.iter().find(|(m, _)| m == n).map(|(_, e)| match e {
            Entry::Field { .. } => Outcome::FieldExists,
            Entry::Function => Outcome::FunctionExists,
        })
    }
    fn apply(&mut self, op: Op) -> Outcome {
        match op {
            Op::Field(i) | Op::OptField(i) | Op::Function(i) => {
                if let Some(o) = self.name_taken(NAMES[i]) {
                    return o;
                }
                let e = match op {
                    Op::Field(_) => Entry::Field { ty: Type::Int, optional: false },
                    Op::OptField(_) => Entry::Field { ty: Type::Bytes, optional: true },
                    _ => Entry::Function,
                };
                self.entries.push((NAMES[i].to_string(), e));
                Outcome::Ok
            }
            Op::ListIntAlways | Op::ListIntNever => {
                if self.lists.contains(&Type::Int) {
                    Outcome::ListExists
                } else {
                    self.lists.push(Type::Int);
                    Outcome::Ok
                }
            }
            Op::ListBytesNever => {
                if self.lists.contains(&Type::Bytes) {
                    Outcome::ListExists
                } else {
                    self.lists.push(Type::Bytes);
                    Outcome::Ok
                }
            }
        }
    }
    fn fields(&self) -> Vec<(&str, Type, bool)> {
        self.entries
            .iter()
            .filter_map(|(n, e)| match e {
                Entry::Field { ty, optional } => Some((n.as_str(), *ty, *optional)),
                _ => None,
            })
            .collect()
    }
    fn functions(&self) -> Vec<&str> {
        self.entries.iter().filter_map(|(n, e)| if *e == Entry::Function { Some(n.as_str()) } else { None }).collect()
    }
}

fn the_function() -> SimpleFunctionDefinition {
    let spec = fn_spec("both");
    SimpleFunctionDefinition {
        params: vec![SimpleFunctionParam { arg_kind: SimpleFunctionArgKind::Both, val_type: Type::Bytes }],
        opt_params: vec![],
        return_type: Type::Bytes,
        implementation: SimpleFunctionImpl::new(spec.real.unwrap()),
    }
}

fn apply_real(b: &mut SchemeBuilder, op: Op) -> Outcome {
    // the statement asks for the *kind* that already holds the name; the message text is not judged
    let ident = |r: Result<(), IdentifierRedefinitionError>, _name: &str| match r {
        Ok(()) => Outcome::Ok,
        Err(IdentifierRedefinitionError::Field(_)) => Outcome::FieldExists,
        Err(IdentifierRedefinitionError::Function(_)) => Outcome::FunctionExists,
    };
    match op {
        Op::Field(i) => ident(b.add_field(NAMES[i], Type::Int), NAMES[i]),
        Op::OptField(i) => ident(b.add_optional_field(NAMES[i], Type::Bytes), NAMES[i]),
        Op::Function(i) => ident(b.add_function(NAMES[i], the_function()), NAMES[i]),
        Op::ListIntAlways => b.add_list(Type::Int, AlwaysList {}).map(|_| Outcome::Ok).unwrap_or(Outcome::ListExists),
        Op::ListBytesNever => b.add_list(Type::Bytes, NeverList {}).map(|_| Outcome::Ok).unwrap_or(Outcome::ListExists),
        Op::ListIntNever => b.add_list(Type::Int, NeverList {}).map(|_| Outcome::Ok).unwrap_or(Outcome::ListExists),
    }
}

/// What the built scheme lets us observe (the state key).
fn observe(s: &Scheme) -> String {
    let mut out = String::new();
    for f in s.fields() {
        out.push_str(&format!("F{}:{}:{:?}:{}:{};", f.index(), f.name(), f.get_type(), f.optional(), s.get_field(f.name()).map(|g| g.index() as i64).unwrap_or(-1)));
    }
    for f in s.functions() {
        out.push_str(&format!("G{}:{};", f.index(), f.name()));
    }
    for l in s.lists() {
        out.push_str(&format!("L{:?}:{:?};", l.get_type(), l));
    }
    out.push_str(&format!("#{}/{}/{}", s.field_count(), s.function_count(), s.list_count()));
    out
}

fn expected_observation(m: &Model) -> String {
    let mut out = String::new();
    for (i, (n, t, o)) in m.fields().iter().enumerate() {
        out.push_str(&format!("F{i}:{n}:{t:?}:{o}:{i};"));
    }
    for (i, n) in m.functions().iter().enumerate() {
        out.push_str(&format!("G{i}:{n};"));
    }
    let mut int_def = "";
    let _ = &mut int_def;
    out
}

fn replay_history(h: &[Op]) -> Result<(SchemeBuilder, Model, Vec<String>), String> {
    let mut b = SchemeBuilder::new();
    let mut m = Model::default();
    let mut problems = Vec::new();
    for (k, op) in h.iter().enumerate() {
        let want = m.apply(*op);
        let got = guarded(|| apply_real(&mut b, *op)).map_err(|p| format!("step {k} {op:?} panicked: {p}"))?;
        if got != want {
            problems.push(format!("step {k} {op:?}: engine {got:?}, reference {want:?}"));
        }
    }
    Ok((b, m, problems))
}

fn name_variants() -> Vec<String> {
    let mut v: Vec<String> = NAMES.iter().map(|s| s.to_string()).collect();
    for extra in ["x.", "x.y.", ".x", "x.Y", "xy.z", "x.y.z.w", "", "x..y", "x_y.z", "Xy", "y", "x .y", "x.y "] {
        v.push(extra.to_string());
    }
    v
}

/// Full interrogation of a built scheme against the model.
fn interrogate(run: &Run, hist: &[Op], s: &Scheme, m: &Model) {
    let mut bad = |what: String| {
        run.violation(
            format!("{ID}:lookup:{what}:{hist:?}"),
            format!("after {hist:?}: {what}"),
            json!({"kind": "c16-history", "history": hist, "what": what}),
        );
    };
    let fields = m.fields();
    let funcs = m.functions();
    // enumeration: names, types, optionality, insertion-order indexes
    let real_fields: Vec<(String, Type, bool, usize)> = s.fields().map(|f| (f.name().to_string(), f.get_type(), f.optional(), f.index())).collect();
    let want_fields: Vec<(String, Type, bool, usize)> = fields.iter().enumerate().map(|(i, (n, t, o))| (n.to_string(), *t, *o, i)).collect();
    if real_fields != want_fields {
        bad(format!("fields() = {real_fields:?}, reference {want_fields:?}"));
    }
    let real_funcs: Vec<(String, usize)> = s.functions().map(|f| (f.name().to_string(), f.index())).collect();
    let want_funcs: Vec<(String, usize)> = funcs.iter().enumerate().map(|(i, n)| (n.to_string(), i)).collect();
    if real_funcs != want_funcs {
        bad(format!("functions() = {real_funcs:?}, reference {want_funcs:?}"));
    }
    let real_lists: Vec<Type> = s.lists().map(|l| l.get_type()).collect();
    if real_lists != m.lists {
        bad(format!("lists() = {real_lists:?}, reference {:?}", m.lists));
    }
    if s.field_count() != fields.len() || s.function_count() != funcs.len() || s.list_count() != m.lists.len() {
        bad("counts differ from the reference".into());
    }
    for ty in [Type::Int, Type::Bytes, Type::Ip, Type::Bool] {
        let got = guarded(|| s.get_list(&ty).map(|l| l.get_type()));
        let want = Ok(if m.lists.contains(&ty) { Some(ty) } else { None });
        if got != want {
            bad(format!("get_list({ty:?}) = {got:?}, reference {want:?}"));
        }
    }
    // exact-name resolution
    for name in name_variants() {
        let fi = fields.iter().position(|(n, _, _)| *n == name);
        let gi = funcs.iter().position(|n| *n == name);
        let got_f = guarded(|| s.get_field(&name).ok().map(|f| (f.index(), f.name().to_string(), f.get_type(), f.optional())));
        let want_f = fi.map(|i| (i, name.clone(), fields[i].1, fields[i].2));
        if got_f != Ok(want_f.clone()) {
            bad(format!("get_field({name:?}) = {got_f:?}, reference {want_f:?}"));
        }
        let got_g = guarded(|| s.get_function(&name).ok().map(|f| (f.index(), f.name().to_string())));
        let want_g = gi.map(|i| (i, name.clone()));
        if got_g != Ok(want_g.clone()) {
            bad(format!("get_function({name:?}) = {got_g:?}, reference {want_g:?}"));
        }
        // identifiers in filters: only the complete dotted name resolves; fields and functions are not interchangeable
        let as_int = format!("{name} == 1");
        let as_bytes = format!("{name} == \"a\"");
        let as_call = format!("{name}(\"a\") == \"a\"");
        let want_int = fi.map(|i| fields[i].1 == Type::Int).unwrap_or(false) && name.trim() == name && !name.is_empty();
        let want_bytes = fi.map(|i| fields[i].1 == Type::Bytes).unwrap_or(false) && name.trim() == name && !name.is_empty();
        let want_call = gi.is_some() && name.trim() == name && !name.is_empty();
        // a name with blanks cannot be written as one identifier: skip the parse part for those
        if name.contains(' ') {
            continue;
        }
        for (text, want) in [(as_int, want_int), (as_bytes, want_bytes), (as_call, want_call)] {
            let got = guarded(|| s.parse(&text).is_ok());
            run.eval(1);
            if got != Ok(want) {
                bad(format!("parse({text:?}) accepted={got:?}, reference {want}"));
            }
        }
    }
    // accepted filters resolve to the right field: uses() is keyed by the exact name
    for (n, t, _) in &fields {
        let text = if *t == Type::Int { format!("{n} == 1") } else { format!("{n} == \"a\"") };
        if let Ok(Ok(ast)) = guarded(|| s.parse(&text).map_err(|e| e.to_string())) {
            for (other, _, _) in &fields {
                let got = ast.uses(other);
                if got != Ok(other == n) {
                    bad(format!("{text:?}.uses({other:?}) = {got:?}"));
                }
            }
        }
    }
    // interchangeability only between clones
    let c = s.clone();
    if *s != c {
        bad("a scheme is not equal to its clone".into());
    }
    // owned handles (`to_owned` / `as_ref` / `reborrow`) denote the same entry, on the scheme and on its clone
    let handles = guarded(|| {
        let mut problems = Vec::new();
        for f in s.fields() {
            let o = f.to_owned();
            if o.name() != f.name() || o.index() != f.index() || o.optional() != f.optional() || o.get_type() != f.get_type() || o.as_ref() != f || o != f {
                problems.push(format!("the owned handle of field {:?} differs from the borrowed one", f.name()));
            }
            let r = o.as_ref().reborrow(&c);
            if r.name() != f.name() || r.index() != f.index() || c.get_field(f.name()).ok() != Some(r) {
                problems.push(format!("field {:?} reborrowed on the clone is not the clone's field of that name", f.name()));
            }
            // a value goes in through the owned handle and is read back through the name
            let mut ctx = wirefilter::ExecutionContext::<()>::new(s);
            let set = if f.get_type() == Type::Int { ctx.set_field_value(o.as_ref(), 5i64).is_ok() } else { ctx.set_field_value(o.as_ref(), "v").is_ok() };
            let back = ctx.get_field_value(s.get_field(f.name()).unwrap()).is_some();
            let elsewhere = s.fields().filter(|g| g.name() != f.name()).any(|g| ctx.get_field_value(g).is_some());
            if !set || !back || elsewhere {
                problems.push(format!("a value set through the owned handle of {:?} is not what reading {:?} gives (set={set}, read back={back}, visible elsewhere={elsewhere})", f.name(), f.name()));
            }
        }
        for g in s.functions() {
            let o = g.to_owned();
            if o.name() != g.name() || o.index() != g.index() || o.as_ref() != g || o != g || c.get_function(g.name()).ok() != Some(o.as_ref().reborrow(&c)) {
                problems.push(format!("the owned handle of function {:?} differs from the borrowed one", g.name()));
            }
        }
        for l in s.lists() {
            let o = l.to_owned();
            if o.get_type() != l.get_type() || o.as_ref() != l || o != l || c.get_list(&l.get_type()) != Some(o.as_ref().reborrow(&c)) {
                problems.push(format!("the owned handle of the {:?} list differs from the borrowed one", l.get_type()));
            }
        }
        problems
    });
    match handles {
        Ok(ps) => {
            for p in ps {
                bad(p);
            }
        }
        Err(p) => bad(format!("handling owned / reborrowed entries panicked: {p}")),
    }
}

fn key_hash(k: &str) -> u64 {
    let mut h = fnv::FnvHasher::default();
    k.hash(&mut h);
    h.finish()
}

pub fn run(tier: Tier, seed: u64) -> i32 {
    let run = Run::new(ID, "model_checking", tier, seed);
    run.assume("a registry state is determined by what the built scheme exposes (fields, functions, lists with indexes); states with equal observations are merged");
    let all_ops = ops();
    let max_depth = tier.pick(5usize, 6usize);
    let interrogate_depth = tier.pick(4usize, 5usize);
    let mut seen: HashSet<u64> = HashSet::new();
    let mut frontier: Vec<Vec<Op>> = vec![vec![]];
    let mut states = 0u64;
    let mut transitions = 0u64;
    {
        let (b, _, _) = replay_history(&[]).unwrap();
        seen.insert(key_hash(&observe(&b.build())));
        states += 1;
    }
    let _ = expected_observation;
    for depth in 1..=max_depth {
        let results: Mutex<Vec<(Vec<Op>, String)>> = Mutex::new(Vec::new());
        let fr = &frontier;
        par_for(fr.len(), ncpu(), |fi| {
            let mut local = Vec::new();
            for op in &all_ops {
                let mut h = fr[fi].clone();
                h.push(*op);
                let hc = h.clone();
                let body = guarded(|| {
                let replayed = match guarded(|| replay_history(&h)) {
                    Ok(r) => r,
                    Err(p) => Err(p),
                };
                match replayed {
                    Err(p) => run.violation(
                        format!("{ID}:panic:{h:?}"),
                        p,
                        json!({"kind": "c16-history", "history": h}),
                    ),
                    Ok((b, m, problems)) => {
                        for p in problems {
                            run.violation(
                                format!("{ID}:add-result:{h:?}"),
                                format!("history {h:?}: {p}"),
                                json!({"kind": "c16-history", "history": h, "what": p}),
                            );
                        }
                        let s = b.build();
                        // cheap always-on check: the observation equals the reference registry
                        let want_fields: Vec<(String, Type, bool)> = m.fields().iter().map(|(n, t, o)| (n.to_string(), *t, *o)).collect();
                        let got_fields: Vec<(String, Type, bool)> = s.fields().map(|f| (f.name().to_string(), f.get_type(), f.optional())).collect();
                        let got_funcs: Vec<String> = s.functions().map(|f| f.name().to_string()).collect();
                        let got_lists: Vec<Type> = s.lists().map(|l| l.get_type()).collect();
                        if want_fields != got_fields || got_funcs != m.functions() || got_lists != m.lists {
                            run.violation(
                                format!("{ID}:registry:{h:?}"),
                                format!("history {h:?}: registry {got_fields:?} {got_funcs:?} {got_lists:?} differs from the reference {:?}", m),
                                json!({"kind": "c16-history", "history": h}),
                            );
                        }
                        if depth <= interrogate_depth {
                            interrogate(&run, &h, &s, &m);
                        }
                        // two builds of the same history are different schemes
                        if depth <= 2 {
                            let (b2, _, _) = replay_history(&h).unwrap();
                            if s == b2.build() {
                                run.violation(
                                    format!("{ID}:equality:{h:?}"),
                                    "two separately built schemes compare equal".into(),
                                    json!({"kind": "c16-history", "history": h}),
                                );
                            }
                        }
                        // always on: each list type resolves to the list registered for it
                        for ty in [Type::Int, Type::Bytes] {
                            let got = guarded(|| s.get_list(&ty).map(|l| l.get_type()));
                            let want = if m.lists.contains(&ty) { Some(ty) } else { None };
                            if got != Ok(want) {
                                run.violation(
                                    format!("{ID}:get-list:{h:?}"),
                                    format!("history {h:?}: get_list({ty:?}) gives a list of type {got:?}, reference {want:?}"),
                                    json!({"kind": "c16-history", "history": h}),
                                );
                            }
                        }
                        // States are merged on what the built scheme shows - but "a refused call
                        // changes nothing" is the very thing being checked, so a history that
                        // contains a refusal of some kind is kept apart from one that does not:
                        // the kinds of refusals met so far are part of the state.
                        let mut refused: std::collections::BTreeSet<String> = std::collections::BTreeSet::new();
                        let mut mm = Model::default();
                        for op in &h {
                            let o = mm.apply(*op);
                            if o != Outcome::Ok {
                                let class = match op {
                                    Op::Field(_) => "field",
                                    Op::OptField(_) => "optional field",
                                    Op::Function(_) => "function",
                                    Op::ListIntAlways | Op::ListIntNever => "int list",
                                    Op::ListBytesNever => "bytes list",
                                };
                                refused.insert(format!("{class} refused: {o:?}"));
                            }
                        }
                        local.push((h, format!("{} after refusals {refused:?}", observe(&s))));
                    }
                }
                });
                if let Err(p) = body {
                    run.violation(
                        format!("{ID}:panic:{hc:?}"),
                        format!("history {hc:?}: building or interrogating the scheme panicked: {p}"),
                        json!({"kind": "c16-history", "history": hc}),
                    );
                }
            }
            results.lock().unwrap().extend(local);
        });
        let mut next = Vec::new();
        let mut res = results.into_inner().unwrap();
        res.sort(); // deterministic frontier order
        for (h, key) in res {
            transitions += 1;
            if seen.insert(key_hash(&key)) {
                states += 1;
                if states % 50_000 == 1 {
                    run.sample(8, || json!({"history": format!("{h:?}"), "observed_state": key}));
                }
                next.push(h);
            }
        }
        run.note(format!("depth {depth}: {} new states, {transitions} transitions so far", next.len()));
        frontier = next;
    }
    run.eval(transitions);
    run.set("states", json!(states));
    run.set("transitions", json!(transitions));
    run.set("traces_validated_against_impl", json!(transitions));
    run.set("bounds", json!({"max_history_length": max_depth, "full_interrogation_up_to_length": interrogate_depth, "operations": all_ops.len(), "names": NAMES}));
    run.sample(8, || json!({"history": "[Field(1), Function(0), OptField(2), ListIntAlways, ListIntNever]", "meaning": "add_field(x.y,Int); add_function(x); add_optional_field(x.y.z,Bytes); add_list(Int, always); add_list(Int, never) -> last one must fail"}));
    run.count("states", states);
    run.finish(
        states,
        "BFS over all registration histories up to the length bound (21 operations over 6 colliding names, 3 list registrations); every transition replays the history on a fresh real SchemeBuilder and compares each add_* result and the built scheme with the reference registry; states deduplicated on the observed registry; full name/prefix/extension/case interrogation (get_field, get_function, get_list, parse of identifiers and calls, uses) at every node up to length 4",
        true,
        &[("states", 100)],
    )
}

pub fn replay(case: &serde_json::Value) -> Result<u64, String> {
    let h: Vec<Op> = serde_json::from_value(case["history"].clone()).map_err(|e| e.to_string())?;
    let run = Run::new("replay", "model_checking", Tier::Quick, 0);
    match replay_history(&h) {
        Err(p) => {
            eprintln!("{p}");
            return Ok(1);
        }
        Ok((b, m, problems)) => {
            for p in &problems {
                eprintln!("{p}");
            }
            let s = b.build();
            interrogate(&run, &h, &s, &m);
            Ok(problems.len() as u64 + run.violations_seen())
        }
    }
}
