//! C12 — uses() / uses_list() (shape P, exhaustive over a program corpus x every field).

use crate::ast::*;
use crate::corpus;
use crate::ev::{Run, Tier, guarded, ncpu, par_for};
use crate::prog::case_json;
use crate::sem::{filter_ok, value_ty};
use crate::unis;
use serde_json::json;
use std::collections::BTreeSet;
use std::sync::atomic::{AtomicU64, Ordering};

pub const ID: &str = "C12";

fn f(n: &str) -> Lhs {
    Lhs::field(n)
}
fn a(l: Lhs) -> Arg {
    Arg::Lhs(l)
}

/// Programs in which the *only* mention of `s` (Bytes) sits at one specific AST position,
/// inside or outside the left-hand side of an `in $list`.
fn sole_occurrence() -> Vec<(String, Expr)> {
    let s = || f("s");
    let other = || Lhs::fieldp("ms", vec![Idx::K("a".into())]); // a Bytes value not mentioning `s`
    let eqa = |l: Lhs| Expr::cmp(l, CmpOp::Eq, Rhs::Lit(Lit::str(b"a")));
    let inl = |l: Lhs| Expr::cmp(l, CmpOp::InList, Rhs::List("b".into()));
    let t = || Expr::IsTrue(f("t"));
    let u = || Expr::IsTrue(f("u"));
    let mut out: Vec<(String, Expr)> = Vec::new();
    // the Bytes-valued terms with `s` at one position
    let terms: Vec<(&str, Lhs)> = vec![
        ("lhs", s()),
        ("arg1-depth1", Lhs::call("idb", vec![a(s())])),
        ("arg1-depth2", Lhs::call("up", vec![a(Lhs::call("idb", vec![a(s())]))])),
        ("arg1-depth3", Lhs::call("nie", vec![a(Lhs::call("up", vec![a(Lhs::call("idb", vec![a(s())]))]))])),
        ("arg2", Lhs::call("cat2", vec![a(other()), a(s())])),
        ("arg3", Lhs::call("opt", vec![a(other()), Arg::Lit(Lit::int(3)), a(s())])),
        ("arg2-depth2", Lhs::call("cat2", vec![a(other()), a(Lhs::call("idb", vec![a(s())]))])),
        ("arg3-depth2", Lhs::call("opt", vec![a(other()), Arg::Lit(Lit::int(3)), a(Lhs::call("cat2", vec![a(other()), a(s())]))])),
        ("concat-last", Lhs::call("concat", vec![a(other()), Arg::Lit(Lit::str(b"x")), a(s())])),
        ("logical-arg", Lhs::call("pick", vec![a(other()), Arg::Logical(eqa(s()))])),
        ("logical-arg-not", Lhs::call("pick", vec![a(other()), Arg::Logical(Expr::not(eqa(s())))])),
        ("logical-arg-chain-last", Lhs::call("pick", vec![a(other()), Arg::Logical(Expr::Chain(LOp::Or, vec![Expr::paren(t()), u(), eqa(s())]))])),
        ("logical-arg-inlist", Lhs::call("pick", vec![a(other()), Arg::Logical(inl(s()))])),
        ("logical-arg-inlist-deep", Lhs::call("pick", vec![a(other()), Arg::Logical(inl(Lhs::call("cat2", vec![a(other()), a(s())])))])),
        ("indexed-call", Lhs::callp("arr", vec![a(s())], vec![Idx::N(0)])),
        // `in $list` below a call that is itself a plain (index-expression) argument, 2 and 3 calls deep
        ("inlist-2calls", Lhs::call("idb", vec![a(Lhs::call("pick", vec![a(other()), Arg::Logical(inl(s()))]))])),
        ("inlist-3calls", Lhs::call("up", vec![a(Lhs::call("idb", vec![a(Lhs::call("pick", vec![a(other()), Arg::Logical(inl(s()))]))]))])),
        ("inlist-2calls-arg2", Lhs::call("cat2", vec![a(other()), a(Lhs::call("pick", vec![a(other()), Arg::Logical(inl(Lhs::call("idb", vec![a(s())])))]))])),
        ("inlist-fbfb", Lhs::call("pick", vec![a(other()), a(Lhs::call("fb", vec![a(Lhs::call("fb", vec![Arg::Logical(inl(s()))]))]))])),
        ("inlist-under-mapped", Lhs::callp("pick", vec![a(Lhs::fieldp("xs", vec![Idx::Each])), a(Lhs::call("fb", vec![Arg::Logical(inl(s()))]))], vec![Idx::N(0)])),
    ];
    for (name, l) in &terms {
        for (wrap_name, e) in [("eq", eqa(l.clone())), ("inlist", inl(l.clone()))] {
            let tag = format!("{name}/{wrap_name}");
            out.push((format!("{tag}/sole"), e.clone()));
            out.push((format!("{tag}/not"), Expr::not(e.clone())));
            out.push((format!("{tag}/paren"), Expr::paren(e.clone())));
            out.push((format!("{tag}/left"), Expr::Chain(LOp::And, vec![e.clone(), t(), u()])));
            out.push((format!("{tag}/middle"), Expr::Chain(LOp::Or, vec![t(), e.clone(), u()])));
            out.push((format!("{tag}/right"), Expr::Chain(LOp::Xor, vec![t(), u(), e.clone()])));
            out.push((format!("{tag}/mixed-right"), Expr::Chain(LOp::Or, vec![t(), Expr::Chain(LOp::And, vec![u(), e.clone()])])));
            out.push((format!("{tag}/deep-paren"), Expr::Chain(LOp::And, vec![t(), Expr::paren(Expr::Chain(LOp::Or, vec![u(), Expr::not(Expr::paren(e.clone()))]))])));
            out.push((format!("{tag}/fb-arg"), Expr::IsTrue(Lhs::call("fb", vec![Arg::Logical(if arg_form_ok(&e) { e.clone() } else { Expr::paren(e.clone()) })]))));
        }
    }
    // array-valued positions (only mention of `xs` / `xb`)
    let xs_each = || Lhs::fieldp("xs", vec![Idx::Each]);
    let arr_cases: Vec<(&str, Expr)> = vec![
        ("quant-logical", Expr::any(QArg::Logical(Expr::cmp(xs_each(), CmpOp::Eq, Rhs::Lit(Lit::str(b"a")))))),
        ("quant-logical-inlist", Expr::all(QArg::Logical(Expr::cmp(xs_each(), CmpOp::InList, Rhs::List("b".into()))))),
        ("quant-mapped-call-inlist", Expr::any(QArg::Logical(Expr::cmp(Lhs::callp("idb", vec![a(xs_each())], vec![Idx::Each]), CmpOp::InList, Rhs::List("b".into()))))),
        ("quant-mapped-call", Expr::any(QArg::Logical(Expr::cmp(Lhs::callp("up", vec![a(xs_each())], vec![Idx::Each]), CmpOp::Eq, Rhs::Lit(Lit::str(b"A")))))),
        ("index-base", Expr::cmp(Lhs::fieldp("xs", vec![Idx::N(0)]), CmpOp::Eq, Rhs::Lit(Lit::str(b"a")))),
        ("index-base-inlist", Expr::cmp(Lhs::fieldp("xs", vec![Idx::N(0)]), CmpOp::InList, Rhs::List("b".into()))),
        ("quant-index-arg", Expr::any(QArg::Lhs(f("xb")))),
        ("quant-chain-last", Expr::all(QArg::Logical(Expr::Chain(LOp::And, vec![Expr::paren(Expr::IsTrue(f("yb"))), Expr::IsTrue(f("yb")), Expr::cmp(xs_each(), CmpOp::Ne, Rhs::Lit(Lit::str(b"a")))])))),
        ("cnt-arg", Expr::cmp(Lhs::call("cnt", vec![Arg::Logical(Expr::cmp(xs_each(), CmpOp::InList, Rhs::List("b".into())))]), CmpOp::Ge, Rhs::Lit(Lit::int(1)))),
    ];
    for (n, e) in arr_cases {
        out.push((format!("{n}/sole"), e.clone()));
        out.push((format!("{n}/right"), Expr::Chain(LOp::And, vec![t(), u(), e.clone()])));
        out.push((format!("{n}/not"), Expr::not(e)));
    }
    out
}

pub fn run(tier: Tier, seed: u64) -> i32 {
    let run = Run::new(ID, "exploration", tier, seed);
    run.assume("identifier occurrences are computed from the generating structure (ast::fields_of / list_fields_of)");
    let (tag, uni) = unis::containers(true);
    let scheme = uni.build();
    let mut names: Vec<String> = uni.fields.iter().map(|f| f.0.clone()).collect();
    let unknown = ["nope", "S", "s.x", "", "idb", "xs[0]", " s"];
    names.extend(unknown.iter().map(|s| s.to_string()));
    let used_true = AtomicU64::new(0);
    let used_false = AtomicU64::new(0);
    let list_true = AtomicU64::new(0);

    let mut programs: Vec<(String, Expr)> = sole_occurrence();
    for (i, e) in corpus::filters(&uni, tier.pick(6, 12)).into_iter().enumerate() {
        programs.push((format!("corpus/{i}"), e));
    }
    run.set("filters", json!(programs.len()));
    par_for(programs.len(), ncpu(), |k| {
        let (label, e) = &programs[k];
        if let Err(te) = filter_ok(&uni, e) {
            panic!("C12 generator produced an ill-typed program {label}: {} ({})", render(e), te.0);
        }
        let text = render(e);
        let ast = match guarded(|| scheme.parse(&text).map_err(|e| e.to_string())) {
            Ok(Ok(a)) => a,
            other => {
                run.violation(
                    format!("{ID}:parse:{text}"),
                    format!("well-typed filter {text:?} did not parse: {other:?}"),
                    case_json(&tag, "uses", &text, json!(e), None, json!({})),
                );
                return;
            }
        };
        let mut occ = Vec::new();
        fields_of(e, &mut occ);
        let occ: BTreeSet<String> = occ.into_iter().collect();
        let mut locc = Vec::new();
        list_fields_of(e, &mut locc);
        let locc: BTreeSet<String> = locc.into_iter().collect();
        for name in &names {
            let is_field = uni.field(name).is_some();
            let want_u = if is_field { Some(occ.contains(name)) } else { None };
            let want_l = if is_field { Some(locc.contains(name)) } else { None };
            let got_u = guarded(|| ast.uses(name).ok());
            let got_l = guarded(|| ast.uses_list(name).ok());
            run.eval(2);
            if got_u != Ok(want_u) {
                run.violation(
                    format!("{ID}:uses:{label}:{name}"),
                    format!("{text:?}.uses({name:?}) = {got_u:?}, reference {want_u:?} [{label}]"),
                    case_json(&tag, "uses", &text, json!(e), None, json!({"field": name, "query": "uses"})),
                );
            }
            if got_l != Ok(want_l) {
                run.violation(
                    format!("{ID}:uses_list:{label}:{name}"),
                    format!("{text:?}.uses_list({name:?}) = {got_l:?}, reference {want_l:?} [{label}]"),
                    case_json(&tag, "uses", &text, json!(e), None, json!({"field": name, "query": "uses_list"})),
                );
            }
            match want_u {
                Some(true) => used_true.fetch_add(1, Ordering::Relaxed),
                Some(false) => used_false.fetch_add(1, Ordering::Relaxed),
                None => 0,
            };
            if want_l == Some(true) {
                list_true.fetch_add(1, Ordering::Relaxed);
            }
        }
        if k % 211 == 3 {
            run.sample(12, || json!({"label": label, "filter": text, "uses": occ, "uses_list": locc}));
        }
    });

    // value expressions
    let mut vals: Vec<crate::ast::Lhs> = corpus::values();
    vals.push(Lhs::call("cat2", vec![a(Lhs::fieldp("ms", vec![Idx::K("a".into())])), a(Lhs::call("idb", vec![a(f("s"))]))]));
    vals.push(Lhs::call("pick", vec![a(f("s")), Arg::Logical(Expr::cmp(Lhs::call("inc", vec![a(f("i"))]), CmpOp::InList, Rhs::List("a".into())))]));
    for l in &vals {
        value_ty(&uni, l).expect("typed value");
        let text = render_value(l);
        let ast = match guarded(|| scheme.parse_value(&text).map_err(|e| e.to_string())) {
            Ok(Ok(a)) => a,
            other => {
                run.violation(
                    format!("{ID}:parse-value:{text}"),
                    format!("well-typed value expression {text:?} did not parse: {other:?}"),
                    case_json(&tag, "uses-value", &text, json!(l), None, json!({})),
                );
                continue;
            }
        };
        let probe = Expr::IsTrue(Lhs { id: l.id.clone(), path: l.path.clone() });
        let mut occ = Vec::new();
        fields_of(&probe, &mut occ);
        let occ: BTreeSet<String> = occ.into_iter().collect();
        let mut locc = Vec::new();
        list_fields_of(&probe, &mut locc);
        let locc: BTreeSet<String> = locc.into_iter().collect();
        for name in &names {
            let is_field = uni.field(name).is_some();
            let want_u = if is_field { Some(occ.contains(name)) } else { None };
            let want_l = if is_field { Some(locc.contains(name)) } else { None };
            let got_u = guarded(|| ast.uses(name).ok());
            let got_l = guarded(|| ast.uses_list(name).ok());
            run.eval(2);
            run.count("value_queries", 2);
            if got_u != Ok(want_u) || got_l != Ok(want_l) {
                run.violation(
                    format!("{ID}:value-uses:{text}:{name}"),
                    format!("value {text:?}: uses({name:?}) = {got_u:?} (reference {want_u:?}), uses_list = {got_l:?} (reference {want_l:?})"),
                    case_json(&tag, "uses-value", &text, json!(l), None, json!({"field": name})),
                );
            }
        }
    }
    let (ut, uf, lt) = (used_true.load(Ordering::Relaxed), used_false.load(Ordering::Relaxed), list_true.load(Ordering::Relaxed));
    run.set("answers", json!({"uses_true": ut, "uses_false": uf, "uses_list_true": lt}));
    run.count("uses_true", ut);
    run.count("uses_list_true", lt);
    run.finish(
        ut.min(uf).min(lt.max(1)),
        "every program of the sole-occurrence family (one mention of a field at each AST position kind, inside / outside an `in $list` lhs, under every wrapper) and of the shared corpus x every field of the scheme and unknown names, for uses and uses_list, filters and value expressions; distinct_nontrivial = min(#true answers, #false answers, #uses_list true)",
        true,
        &[("uses_true", 1000), ("uses_list_true", 100), ("value_queries", 100)],
    )
}
