//! C06 — literal forms (shape P, exhaustive over explicit literal families).

use crate::ast::{raw_form_ok, render_hex, render_quoted, render_raw};
use crate::ev::{Run, Tier, guarded, ncpu, par_for};
use crate::lexref::{int_literal, quoted_literal, single_edits};
use serde_json::{Value, json};
use std::net::IpAddr;
use wirefilter::{ComparisonOpExpr, FieldIndex, LogicalExpr, RhsValue, Scheme, SchemeBuilder, Type};

pub const ID: &str = "C06";

fn scheme() -> Scheme {
    let mut b = SchemeBuilder::new();
    b.add_field("i", Type::Int).unwrap();
    b.add_field("s", Type::Bytes).unwrap();
    b.add_field("ip", Type::Ip).unwrap();
    b.add_field("t", Type::Bool).unwrap();
    b.add_field("xi", Type::Array(Type::Int.into())).unwrap();
    b.add_field("ms", Type::Map(Type::Bytes.into())).unwrap();
    b.build()
}

/// Parses a filter and returns its JSON, or None when rejected. Panics are violations.
fn parse_json(run: &Run, s: &Scheme, text: &str) -> Option<Value> {
    run.eval(1);
    match guarded(|| s.parse(text).map(|a| serde_json::to_value(&a).unwrap()).map_err(|e| e.to_string())) {
        Ok(Ok(v)) => Some(v),
        Ok(Err(_)) => None,
        Err(p) => {
            run.violation(
                format!("{ID}:panic:{text}"),
                format!("parse of {text:?} panicked: {p}"),
                json!({"kind": "c06-text", "text": text}),
            );
            None
        }
    }
}

#[derive(Clone)]
enum Want {
    Value(Value),
    Reject,
}

fn expect(run: &Run, s: &Scheme, text: &str, pointer: &str, want: &Want, what: &str) {
    let got = parse_json(run, s, text);
    match (want, &got) {
        (Want::Reject, None) => {
            run.count("rejected_as_expected", 1);
        }
        (Want::Value(w), Some(doc)) => {
            let at = doc.pointer(pointer);
            if at == Some(w) {
                run.count("decoded_as_expected", 1);
            } else {
                run.violation(
                    format!("{ID}:wrong-value:{what}:{text}"),
                    format!("{what}: {text:?} decodes to {:?}, expected {w}", at),
                    json!({"kind": "c06-text", "text": text, "pointer": pointer, "expected": w}),
                );
            }
        }
        (Want::Reject, Some(doc)) => run.violation(
            format!("{ID}:accepted-malformed:{what}:{text}"),
            format!("{what}: malformed literal accepted: {text:?} -> {doc}"),
            json!({"kind": "c06-text", "text": text, "expected": "reject"}),
        ),
        (Want::Value(w), None) => run.violation(
            format!("{ID}:rejected-valid:{what}:{text}"),
            format!("{what}: valid literal rejected: {text:?} (expected {w})"),
            json!({"kind": "c06-text", "text": text, "pointer": pointer, "expected": w}),
        ),
    }
}

/// Templates with a hole for a right-hand-side literal of field `f`, with the JSON pointer of the decoded value.
fn rhs_templates(f: &str) -> Vec<(String, String)> {
    vec![
        (format!("{f} == {{}}"), "/rhs".into()),
        (format!("{f} != {{}} "), "/rhs".into()),
        (format!("({f} == {{}})"), "/rhs".into()),
        (format!("( {f} == {{}} )"), "/rhs".into()),
        (format!("{f} == {{}} and t"), "/items/0/rhs".into()),
        (format!("t or {f} == {{}}\n"), "/items/1/rhs".into()),
        (format!("not ({f} >= {{}}) xor t"), "/items/0/arg/rhs".into()),
    ]
}

fn fill(t: &str, lit: &str) -> String {
    t.replacen("{}", lit, 1)
}

fn bytes_json(b: &[u8], hex_form: bool) -> Value {
    if hex_form {
        return json!(b);
    }
    match std::str::from_utf8(b) {
        Ok(s) => json!(s),
        Err(_) => json!(b),
    }
}

pub fn run(tier: Tier, seed: u64) -> i32 {
    let run = Run::new(ID, "exploration", tier, seed);
    run.assume("reference lexers for integers and quoted strings in harness/src/lexref.rs; IP leniency of the underlying parsers (e.g. leading zeros) is not contested");
    let s = scheme();

    // ---------------------------------------------------------------- integers
    let mut ints: Vec<i64> = vec![i64::MIN, i64::MIN + 1, -1, 0, 1, 7, 8, 255, 256, i64::MAX - 1, i64::MAX];
    if seed != 0 {
        ints.push((seed as i64).wrapping_mul(0x5851F42D4C957F2D));
        ints.push(((seed as i64).wrapping_mul(0x14057B7EF767814F)).abs() >> 20);
    }
    let mut int_texts: Vec<(String, i64)> = Vec::new();
    for v in &ints {
        int_texts.push((format!("{v}"), *v));
        if *v >= 0 {
            int_texts.push((format!("0x{v:x}"), *v));
            int_texts.push((format!("0x{v:X}"), *v));
            int_texts.push((format!("0x000{v:x}"), *v));
            int_texts.push((format!("0{v:o}"), *v));
            int_texts.push((format!("000{v:o}"), *v));
        } else {
            int_texts.push((format!("-00{}", (*v as i128).unsigned_abs()), *v));
        }
    }
    for (text, v) in &int_texts {
        assert_eq!(int_literal(text), Some(*v), "reference lexer disagrees with the renderer on {text}");
        for (t, ptr) in rhs_templates("i") {
            expect(&run, &s, &fill(&t, text), &ptr, &Want::Value(json!(v)), "int");
        }
        expect(&run, &s, &format!("i in {{{text}}}"), "/rhs/0", &Want::Value(json!({"start": v, "end": v})), "int-in-list");
        expect(&run, &s, &format!("i in {{ 5 {text} }}"), "/rhs/1", &Want::Value(json!({"start": v, "end": v})), "int-in-list");
        expect(&run, &s, &format!("i & {text}"), "/rhs", &Want::Value(json!(v)), "int-mask");
        run.count("int_literals", 1);
    }
    // ranges: all ordered pairs
    for (ta, a) in &int_texts {
        for (tb, b) in &int_texts {
            // keep the product bounded: decimal x all forms, all forms x decimal
            if !(ta.starts_with(|c: char| c == '-' || c.is_ascii_digit() && !ta.starts_with('0')) || tb == &format!("{b}")) {
                continue;
            }
            let text = format!("i in {{{ta}..{tb}}}");
            let want = if a <= b { Want::Value(json!({"start": a, "end": b})) } else { Want::Reject };
            expect(&run, &s, &text, "/rhs/0", &want, "int-range");
            run.count("int_ranges", 1);
        }
    }
    // malformed integers
    for bad in [
        "9223372036854775808", "-9223372036854775809", "0x8000000000000000", "01000000000000000000000", "0x", "08", "09",
        "0b1", "1_000", "+1", "--1", "- 1", "1e3", "0x1g", "1.0", "١", "１", "0o7", "-", "", "0x-1", "-0x1", "1..", "..1",
    ] {
        assert_eq!(int_literal(bad), None, "reference lexer accepts {bad}");
        expect(&run, &s, &format!("i == {bad}"), "/rhs", &Want::Reject, "int-malformed");
        if !bad.is_empty() {
            expect(&run, &s, &format!("i in {{{bad}}}"), "/rhs", &Want::Reject, "int-malformed");
        }
        run.count("int_malformed", 1);
    }
    // complete single-edit neighbourhood of every rendered integer, judged by the reference lexer
    let int_alphabet: Vec<char> = "0123456789abfxX-+._ ".chars().collect();
    let edits: Vec<String> = {
        let mut v: Vec<String> = Vec::new();
        for (text, _) in &int_texts {
            v.extend(single_edits(text, &int_alphabet));
        }
        v.sort();
        v.dedup();
        v
    };
    par_for(edits.len(), ncpu(), |k| {
        let m = &edits[k];
        let want = match int_literal(m.trim_matches(' ')) {
            Some(v) => Want::Value(json!(v)),
            None => Want::Reject,
        };
        // `1..2`-like texts cannot arise (one edit adds a single '.'), nothing else is a valid rhs
        expect(&run, &s, &format!("i == {m}"), "/rhs", &want, "int-edit");
        run.count("int_edits", 1);
    });

    // ---------------------------------------------------------------- byte strings
    // (a) every byte value in every form that can express it
    for b in 0u16..=255 {
        let b = b as u8;
        let mut forms: Vec<String> = vec![format!("\"\\x{b:02x}\""), format!("\"\\x{b:02X}\""), format!("\"\\{b:03o}\"")];
        if (0x20..0x7f).contains(&b) && b != b'"' && b != b'\\' {
            forms.push(format!("\"{}\"", b as char));
            forms.push(format!("r\"{}\"", b as char));
            forms.push(format!("r##\"{}\"##", b as char));
        }
        if b == b'"' {
            forms.push("\"\\\"\"".into());
            forms.push("r#\"\"\"#".into());
        }
        if b == b'\\' {
            forms.push("\"\\\\\"".into());
            forms.push("r\"\\\"".into());
        }
        for f in &forms {
            for (t, ptr) in rhs_templates("s").into_iter().take(4) {
                expect(&run, &s, &fill(&t, f), &ptr, &Want::Value(bytes_json(&[b], false)), "byte");
            }
        }
        for sep in [':', '-', '.'] {
            for (x, y) in [(b, 0x5au8), (0xa5u8, b)] {
                let lit = format!("{x:02x}{sep}{y:02X}");
                expect(&run, &s, &format!("s == {lit}"), "/rhs", &Want::Value(json!([x, y])), "hex-pairs");
                expect(&run, &s, &format!("(s == {lit})"), "/rhs", &Want::Value(json!([x, y])), "hex-pairs");
                expect(&run, &s, &format!("s == {lit} and t"), "/items/0/rhs", &Want::Value(json!([x, y])), "hex-pairs");
            }
        }
        run.count("byte_values", 1);
    }
    // (b) all strings of length <= 3 over a hostile alphabet, in every form that can express them
    let units: Vec<Vec<u8>> = vec![b"a".to_vec(), b"\"".to_vec(), b"\\".to_vec(), b"#".to_vec(), vec![0], vec![0xff], "é".as_bytes().to_vec()];
    let mut strings: Vec<Vec<u8>> = vec![vec![]];
    let mut level: Vec<Vec<u8>> = vec![vec![]];
    for _ in 0..3 {
        let mut next = Vec::new();
        for p in &level {
            for u in &units {
                let mut q = p.clone();
                q.extend_from_slice(u);
                next.push(q);
            }
        }
        strings.extend(next.iter().cloned());
        level = next;
    }
    par_for(strings.len(), ncpu(), |k| {
        let b = &strings[k];
        let q = render_quoted(b);
        assert_eq!(quoted_literal(&q).as_ref(), Some(b));
        let mut forms = vec![(q, false)];
        // literal UTF-8 text inside quotes where possible (no escapes except for quote / backslash / NUL / 0xff)
        if let Ok(text) = std::str::from_utf8(b) {
            if !text.contains('\0') {
                let lit = format!("\"{}\"", text.replace('\\', "\\\\").replace('"', "\\\""));
                forms.push((lit, false));
            }
            for n in 0u8..=3 {
                if raw_form_ok(b, n) {
                    forms.push((render_raw(b, n), false));
                }
            }
        }
        if b.len() >= 2 {
            forms.push((render_hex(b, ':'), true));
            forms.push((render_hex(b, '-').to_uppercase(), true));
        }
        for (f, hex) in forms {
            for (t, ptr) in rhs_templates("s").into_iter().take(5) {
                expect(&run, &s, &fill(&t, &f), &ptr, &Want::Value(bytes_json(b, hex)), "bytes");
            }
            expect(&run, &s, &format!("s in {{{f}}}"), "/rhs/0", &Want::Value(bytes_json(b, hex)), "bytes-in-list");
            expect(&run, &s, &format!("s in {{\"x\" {f} \"y\"}}"), "/rhs/1", &Want::Value(bytes_json(b, hex)), "bytes-in-list");
            expect(&run, &s, &format!("s contains {f}"), "/rhs", &Want::Value(bytes_json(b, hex)), "bytes-contains");
        }
        run.count("byte_strings", 1);
    });
    // (c) raw strings: every body of length <= 5 over {a, ", #} x hash counts
    let raw_units = [b'a', b'"', b'#'];
    let mut bodies: Vec<Vec<u8>> = vec![vec![]];
    let mut level: Vec<Vec<u8>> = vec![vec![]];
    for _ in 0..tier.pick(4, 5) {
        let mut next = Vec::new();
        for p in &level {
            for u in raw_units {
                let mut q = p.clone();
                q.push(u);
                next.push(q);
            }
        }
        bodies.extend(next.iter().cloned());
        level = next;
    }
    par_for(bodies.len(), ncpu(), |k| {
        let body = &bodies[k];
        for n in [0usize, 1, 2, 3, 255] {
            if n <= 255 && raw_form_ok(body, n.min(255) as u8) {
                let h = "#".repeat(n);
                let lit = format!("r{h}\"{}\"{h}", std::str::from_utf8(body).unwrap());
                expect(&run, &s, &format!("s == {lit}"), "/rhs", &Want::Value(bytes_json(body, false)), "raw");
                expect(&run, &s, &format!("(s == {lit})"), "/rhs", &Want::Value(bytes_json(body, false)), "raw");
                expect(&run, &s, &format!("s == {lit} or t"), "/items/0/rhs", &Want::Value(bytes_json(body, false)), "raw");
                run.count("raw_strings", 1);
            }
        }
    });
    {
        let h256 = "#".repeat(256);
        let h255 = "#".repeat(255);
        expect(&run, &s, &format!("s == r{h256}\"a\"{h256}"), "/rhs", &Want::Reject, "raw-256-hashes");
        expect(&run, &s, &format!("s == r{h255}\"a\"{h255}"), "/rhs", &Want::Value(json!("a")), "raw-255-hashes");
        for bad in ["r\"a", "r#\"a\"", "r##\"a\"#", "r#a#", "r", "r#", "\"a", "\"", "\"a\\\"", "r\"a\"\"", "r#\"a\"##"] {
            expect(&run, &s, &format!("s == {bad}"), "/rhs", &Want::Reject, "string-unterminated");
            run.count("string_malformed", 1);
        }
        for bad in [
            "\"\\x\"", "\"\\x1\"", "\"\\x+f\"", "\"\\x-1\"", "\"\\xg0\"", "\"\\0\"", "\"\\00\"", "\"\\8\"", "\"\\400\"", "\"\\777\"",
            "\"\\+07\"", "\"\\n\"", "\"\\q\"", "\"\\é\"", "\"\\ \"", "\"\\x1é\"", "\"\\18é\"",
        ] {
            assert!(quoted_literal(bad).is_none(), "reference accepts {bad}");
            expect(&run, &s, &format!("s == {bad}"), "/rhs", &Want::Reject, "escape-malformed");
            expect(&run, &s, &format!("ms[{bad}] == \"a\""), "/lhs", &Want::Reject, "escape-malformed-key");
            run.count("string_malformed", 1);
        }
        for bad in ["+1:+2", "1:2", "01:", "01", "0g:01", "01:0g", "01::02", "01:02:", ":01", "-1:02", "01:+2", "é1:02"] {
            expect(&run, &s, &format!("s == {bad}"), "/rhs", &Want::Reject, "hex-pairs-malformed");
            run.count("string_malformed", 1);
        }
    }
    // (d) complete single-edit neighbourhood of rendered quoted strings
    {
        let alphabet: Vec<char> = "\"\\x078afg#é ".chars().collect();
        let bases = ["\"a\"", "\"\\\"\"", "\"\\\\\"", "\"\\x0f\"", "\"\\101\"", "\"a\\xffé\"", "\"\"", "\"\\377\\000\""];
        let mut edits: Vec<String> = Vec::new();
        for b in bases {
            assert!(quoted_literal(b).is_some());
            edits.extend(single_edits(b, &alphabet));
        }
        edits.sort();
        edits.dedup();
        par_for(edits.len(), ncpu(), |k| {
            let m = edits[k].trim_matches(' ');
            if !m.starts_with('"') {
                return; // another literal form or no literal at all: not judged here
            }
            let want = match quoted_literal(m) {
                Some(b) => Want::Value(bytes_json(&b, false)),
                None => Want::Reject,
            };
            expect(&run, &s, &format!("s == {}", edits[k]), "/rhs", &want, "quoted-edit");
            run.count("quoted_edits", 1);
        });
    }

    // ---------------------------------------------------------------- addresses
    {
        let addrs: Vec<IpAddr> = [
            "0.0.0.0", "1.2.3.4", "10.0.0.255", "255.255.255.255", "::", "::1", "::ffff:1.2.3.4", "2001:db8::1", "fe80::1:2:3:4",
            "ffff:ffff:ffff:ffff:ffff:ffff:ffff:ffff", "1:2:3:4:5:6:7:8", "100::",
        ]
        .iter()
        .map(|a| a.parse().unwrap())
        .collect();
        for a in &addrs {
            let mut forms = vec![a.to_string()];
            if let IpAddr::V6(v6) = a {
                let seg = v6.segments();
                forms.push(seg.iter().map(|s| format!("{s:x}")).collect::<Vec<_>>().join(":"));
                forms.push(seg.iter().map(|s| format!("{s:04X}")).collect::<Vec<_>>().join(":"));
            }
            for f in &forms {
                for (t, ptr) in rhs_templates("ip") {
                    expect(&run, &s, &fill(&t, f), &ptr, &Want::Value(json!(a.to_string())), "ip");
                }
                expect(&run, &s, &format!("ip in {{{f}}}"), "/rhs/0", &Want::Value(json!(a.to_string())), "ip-in-list");
                run.count("ip_literals", 1);
            }
        }
        // ranges: all ordered pairs
        for a in &addrs {
            for b in &addrs {
                let ok = match (a, b) {
                    (IpAddr::V4(x), IpAddr::V4(y)) => x <= y,
                    (IpAddr::V6(x), IpAddr::V6(y)) => x <= y,
                    _ => false,
                };
                let want = if ok { Want::Value(json!({"start": a.to_string(), "end": b.to_string()})) } else { Want::Reject };
                expect(&run, &s, &format!("ip in {{{a}..{b}}}"), "/rhs/0", &want, "ip-range");
                expect(&run, &s, &format!("ip in {{ 9.9.9.9 {a}..{b} }}"), "/rhs/1", &want, "ip-range");
                run.count("ip_ranges", 1);
            }
        }
        // every prefix length on a network address; host bits set => reject; over-long prefix => reject
        for p in 0..=33u32 {
            let net = if p == 0 { 0u32 } else if p >= 32 { 0xC0A8_0101 } else { 0xC0A8_0101u32 & (!0u32 << (32 - p)) };
            let a = std::net::Ipv4Addr::from(net);
            let want = if p <= 32 {
                Want::Value(if p == 32 { json!(a.to_string()) } else { json!(format!("{a}/{p}")) })
            } else {
                Want::Reject
            };
            expect(&run, &s, &format!("ip in {{{a}/{p}}}"), "/rhs/0", &want, "cidr4");
            if p < 32 {
                let host = std::net::Ipv4Addr::from(net | 1);
                expect(&run, &s, &format!("ip in {{{host}/{p}}}"), "/rhs/0", &Want::Reject, "cidr4-host-bits");
            }
            run.count("cidrs", 1);
        }
        for p in 0..=129u32 {
            let base: u128 = 0x2001_0db8_ffff_ffff_ffff_ffff_ffff_ffff;
            let net = if p == 0 { 0u128 } else if p >= 128 { base } else { base & (!0u128 << (128 - p)) };
            let a = std::net::Ipv6Addr::from(net);
            let want = if p <= 128 {
                Want::Value(if p == 128 { json!(a.to_string()) } else { json!(format!("{a}/{p}")) })
            } else {
                Want::Reject
            };
            expect(&run, &s, &format!("ip in {{{a}/{p}}}"), "/rhs/0", &want, "cidr6");
            if p < 128 {
                let host = std::net::Ipv6Addr::from(net | 1);
                expect(&run, &s, &format!("ip in {{{host}/{p}}}"), "/rhs/0", &Want::Reject, "cidr6-host-bits");
            }
            run.count("cidrs", 1);
        }
        for bad in [
            "ip == 1.2.3", "ip == 1.2.3.4.5", "ip == 256.1.1.1", "ip == 1.2.3.4/32", "ip == ::g", "ip == :::", "ip == 1::2::3",
            "ip in {1.2.3.4/}", "ip in {1.2.3.4/-1}", "ip in {1.2.3.4/a}", "ip in {1.2.3.4..}", "ip in {..1.2.3.4}", "ip in {1.2.3.4...1.2.3.5}",
            "ip in {1.2.3.4..::1}", "ip in {::1..1.2.3.4}", "ip in {1.2.3.5..1.2.3.4}", "ip in {::2..::1}", "ip == 1.2.3.4..1.2.3.5",
        ] {
            expect(&run, &s, bad, "/rhs", &Want::Reject, "ip-malformed");
            run.count("ip_malformed", 1);
        }
    }

    // ---------------------------------------------------------------- indexes and keys
    {
        for (text, want) in [
            ("0", Some(0u64)), ("1", Some(1)), ("2147483647", Some(2147483647)), ("2147483648", Some(2147483648)),
            ("4294967295", Some(4294967295)), ("4294967296", None), ("-1", None), ("0x10", Some(16)), ("010", Some(8)),
            ("0xffffffff", Some(4294967295)), ("0x100000000", None), ("", None), ("1.0", None), ("a", None), ("+1", None), ("1 2", None),
            ("9223372036854775808", None), ("-0", Some(0)),
        ] {
            let w = match want {
                Some(n) => Want::Value(json!({"kind": "ArrayIndex", "value": n})),
                None => Want::Reject,
            };
            expect(&run, &s, &format!("xi[{text}] == 1"), "/lhs/1", &w, "array-index");
            expect(&run, &s, &format!("xi[ {text} ] == 1"), "/lhs/1", &w, "array-index");
            // also through the typed AST
            if let Some(n) = want {
                if let Ok(Ok(ast)) = guarded(|| s.parse(&format!("xi[{text}] == 1")).map_err(|e| e.to_string())) {
                    if let LogicalExpr::Comparison(c) = ast.expression() {
                        if c.lhs_expr().indexes() != [FieldIndex::ArrayIndex(n as u32)] {
                            run.violation(
                                format!("{ID}:index-ast:{text}"),
                                format!("xi[{text}]: AST index {:?}, expected {n}", c.lhs_expr().indexes()),
                                json!({"kind": "c06-text", "text": format!("xi[{text}] == 1")}),
                            );
                        }
                    }
                }
            }
            run.count("indexes", 1);
        }
        for key in [&b"a"[..], b"", b"a b", b"\"", b"\\", "é".as_bytes(), b"a.b", b"*"] {
            let q = render_quoted(key);
            let w = Want::Value(json!({"kind": "MapKey", "value": std::str::from_utf8(key).unwrap()}));
            expect(&run, &s, &format!("ms[{q}] == \"a\""), "/lhs/1", &w, "map-key");
            expect(&run, &s, &format!("ms[ {q} ] != \"a\""), "/lhs/1", &w, "map-key");
            run.count("keys", 1);
        }
        for bad in ["\"\\xff\"", "\"\\xc3\"", "\"a\\xfe\"", "r\"a\"", "61:62", "a", "'a'", "\"a", "\"a\" \"b\""] {
            expect(&run, &s, &format!("ms[{bad}] == \"a\""), "/lhs/1", &Want::Reject, "map-key-malformed");
            run.count("keys_malformed", 1);
        }
        expect(&run, &s, "ms[\"\\x61\"] == \"a\"", "/lhs/1", &Want::Value(json!({"kind": "MapKey", "value": "a"})), "map-key-escape");
    }

    // ---------------------------------------------------------------- typed AST spot checks (decoded rhs in the AST itself)
    for (text, v) in int_texts.iter().take(20) {
        if let Ok(Ok(ast)) = guarded(|| s.parse(&format!("i == {text}")).map_err(|e| e.to_string())) {
            let ok = match ast.expression() {
                LogicalExpr::Comparison(c) => matches!(c.operator(), ComparisonOpExpr::Ordering { rhs: RhsValue::Int(x), .. } if x == v),
                _ => false,
            };
            if !ok {
                run.violation(
                    format!("{ID}:ast-int:{text}"),
                    format!("i == {text}: the AST does not hold Int({v})"),
                    json!({"kind": "c06-text", "text": format!("i == {text}")}),
                );
            }
            run.count("ast_checks", 1);
        }
    }
    for b in [&b"a\xff"[..], b"", b"\"\\#"] {
        let q = render_quoted(b);
        if let Ok(Ok(ast)) = guarded(|| s.parse(&format!("s == {q}")).map_err(|e| e.to_string())) {
            let ok = match ast.expression() {
                LogicalExpr::Comparison(c) => matches!(c.operator(), ComparisonOpExpr::Ordering { rhs: RhsValue::Bytes(x), .. } if &x[..] == b),
                _ => false,
            };
            if !ok {
                run.violation(
                    format!("{ID}:ast-bytes:{q}"),
                    format!("s == {q}: the AST does not hold the bytes {b:?}"),
                    json!({"kind": "c06-text", "text": format!("s == {q}")}),
                );
            }
            run.count("ast_checks", 1);
        }
    }

    run.sample(20, || json!({"text": "i == 0x7fffffffffffffff and t", "expected": i64::MAX}));
    run.sample(20, || json!({"text": "s == \"\\x00\\377é\"", "expected_bytes": [0, 255, 195, 169]}));
    run.sample(20, || json!({"text": "s == r##\"a\"#\"##", "expected": "a\"#"}));
    run.sample(20, || json!({"text": "ip in {192.168.0.0/16}", "expected": "192.168.0.0/16"}));
    run.sample(20, || json!({"text": "i == 1_000", "expected": "reject"}));
    let dec = run.counter("decoded_as_expected");
    let rej = run.counter("rejected_as_expected");
    run.finish(
        dec.min(rej),
        "every literal of the listed families (integers x radices x 9 following contexts, ordered range pairs, all 256 byte values x escape/raw/hex-pair forms, all strings <= 3 units over a hostile alphabet x every expressing form, all raw bodies <= 4/5 over {a,\",#} x hash counts, addresses x forms, all range pairs, every CIDR prefix length, indexes, keys) decoded value compared through the JSON (and the typed AST); malformed classes and the complete single-edit neighbourhoods of integers and quoted strings judged by reference lexers; distinct_nontrivial = min(#decoded, #rejected)",
        true,
        &[("int_edits", 1000), ("quoted_edits", 200), ("byte_strings", 300), ("raw_strings", 100), ("cidrs", 100)],
    )
}

pub fn replay(case: &Value) -> Result<u64, String> {
    let s = scheme();
    let run = Run::new("replay", "exploration", Tier::Quick, 0);
    let text = case["text"].as_str().ok_or("text")?;
    let want = if case["expected"] == "reject" {
        Want::Reject
    } else if case.get("expected").is_some() && !case["expected"].is_null() {
        Want::Value(case["expected"].clone())
    } else {
        // a recorded panic: any outcome but a panic is fine
        let _ = parse_json(&run, &s, text);
        return Ok(run.violations_seen());
    };
    expect(&run, &s, text, case["pointer"].as_str().unwrap_or("/rhs"), &want, "replay");
    Ok(run.violations_seen())
}
