//! One module per property.

use crate::ev::Tier;
use crate::uni::Uni;

pub mod c01;
pub mod c02;
pub mod c03;
pub mod c04;
pub mod c05;
pub mod c06;
pub mod c07;
pub mod c08;
pub mod c09;
pub mod c10;
pub mod c11;
pub mod c12;
pub mod c13;
pub mod c14;
pub mod c15;
pub mod c16;
pub mod c17;
pub mod c18;
pub mod c19;
pub mod c20;

pub fn run(id: &str, tier: Tier, seed: u64) -> Option<i32> {
    Some(match id {
        "C01" => c01::run(tier, seed),
        "C02" => c02::run(tier, seed),
        "C03" => c03::run(tier, seed),
        "C04" => c04::run(tier, seed),
        "C05" => c05::run(tier, seed),
        "C06" => c06::run(tier, seed),
        "C07" => c07::run(tier, seed),
        "C08" => c08::run(tier, seed),
        "C09" => c09::run(tier, seed),
        "C10" => c10::run(tier, seed),
        "C11" => c11::run(tier, seed),
        "C12" => c12::run(tier, seed),
        "C13" => c13::run(tier, seed),
        "C14" => c14::run(tier, seed),
        "C15" => c15::run(tier, seed),
        "C16" => c16::run(tier, seed),
        "C17" => c17::run(tier, seed),
        "C18" => c18::run(tier, seed),
        "C19" => c19::run(tier, seed),
        "C20" => c20::run(tier, seed),
        _ => return None,
    })
}

/// Universes private to single checks (for replay).
pub fn universe_by_tag(tag: &str) -> Option<Uni> {
    c17::uni_by_tag(tag)
}

/// Replay of case kinds private to single checks. Returns the number of violations reproduced.
pub fn replay(prop: &str, case: &serde_json::Value) -> Result<u64, String> {
    match case["kind"].as_str().unwrap_or("") {
        "contains" => {
            // the scalar path is latched per process through the environment
            if case["mode"] == "scalar" && std::env::var("WIREFILTER_USE_AVX2").ok().as_deref() != Some("0") {
                return Err("RE-EXEC-SCALAR".into());
            }
            c10::replay(case)
        }
        "c16-history" => c16::replay(case),
        "c06-text" => c06::replay(case),
        "c05-input" => c05::replay(case),
        "c20-parity" | "c20-history" | "c20-pair" | "c20-panic" => c20::replay(case),
        "c19-sequence" | "c19-pair" => c19::replay(case),
        "c18-schedule" | "c18-first-use" | "c18-free-running" => c18::replay(case),
        "c17-text" | "c17-step" | "c17-builtin" => c17::replay(case),
        "c14-doc" | "c14-roundtrip" => c14::replay(case),
        "c08-step" | "c08-builder" => c08::replay(case),
        _ => Err(format!("no replay handler for property {prop} case kind {:?}", case["kind"])),
    }
}

/// Subprocess entry points (isolation of runs that may kill the process).
pub fn worker(args: &[String]) -> i32 {
    match args.first().map(|s| s.as_str()) {
        Some("c13deep") => c13::worker_deep(),
        Some("c10") => c10::worker(&args[1..]),
        Some("c05size") => c05::worker_size(),
        Some("c18first") => c18::worker_first_use(),
        other => {
            eprintln!("unknown worker {other:?}");
            2
        }
    }
}
