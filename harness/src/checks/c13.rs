//! C13 — the configurable nesting limit (shape P x configurations, exhaustive).

use crate::ast::*;
use crate::ev::{Run, Tier, guarded, ncpu, par_for};
use crate::prog::case_json;
use crate::sem::{expr_ty, filter_ok};
use crate::uni::{MCtx, Uni, real_ctx};
use crate::unis;
use crate::val::{Ty, V};
use serde_json::json;
use std::sync::atomic::{AtomicU64, Ordering};
use wirefilter::Scheme;

pub const ID: &str = "C13";

#[derive(Clone, Copy, Debug, PartialEq, Eq)]
enum Nest {
    Paren,
    Not,
    Bang, // `!`-spelled not (same structure; rendered through the spelling)
    Any,
    All,
    Fb,   // fb(Bool) / fa(Array(Bool)) depending on the operand type
    Fade, // hex-named identity function on Bool
}

const NESTS: [Nest; 7] = [Nest::Paren, Nest::Not, Nest::Bang, Nest::Any, Nest::All, Nest::Fb, Nest::Fade];

fn as_arg(e: &Expr) -> Arg {
    match e {
        Expr::IsTrue(l) => Arg::Lhs(l.clone()),
        e if arg_form_ok(e) => Arg::Logical(e.clone()),
        e => Arg::Logical(Expr::paren(e.clone())),
    }
}

/// Applies one nesting construct around `e` (which has type Bool or Array(Bool)).
/// Returns `None` when the construct does not apply to the operand's type.
fn wrap(u: &Uni, e: &Expr, n: Nest) -> Option<Expr> {
    let is_arr = matches!(expr_ty(u, e), Ok(Ty::Arr(_)));
    Some(match n {
        Nest::Paren => Expr::paren(e.clone()),
        Nest::Not | Nest::Bang => {
            if matches!(e, Expr::Chain(..)) {
                return None;
            }
            Expr::not(e.clone())
        }
        Nest::Any | Nest::All => {
            if !is_arr {
                return None;
            }
            let q = match as_arg(e) {
                Arg::Lhs(l) => QArg::Lhs(l),
                Arg::Logical(e) => QArg::Logical(e),
                Arg::Lit(_) => unreachable!(),
            };
            Expr::Quant(if n == Nest::Any { QOp::Any } else { QOp::All }, Box::new(q))
        }
        Nest::Fb => Expr::IsTrue(Lhs::call(if is_arr { "fa" } else { "fb" }, vec![as_arg(e)])),
        Nest::Fade => {
            if is_arr {
                return None;
            }
            Expr::IsTrue(Lhs::call("fade", vec![as_arg(e)]))
        }
    })
}

/// Parses with the limit configured through the setter (`via_settings` false) or through
/// `ParserSettings` handed to `parser_with_settings` (true).
fn parse_route(scheme: &Scheme, d: u16, text: &str, via_settings: bool) -> Result<Result<(), String>, String> {
    guarded(|| {
        let p = if via_settings {
            scheme.parser_with_settings(wirefilter::ParserSettings { max_nesting_depth: d, ..Default::default() })
        } else {
            let mut p = scheme.parser();
            p.set_max_nesting_depth(d);
            p
        };
        if p.max_nesting_depth() != d {
            return Err(format!("the parser reports max_nesting_depth {} after {d} was configured", p.max_nesting_depth()));
        }
        p.parse(text).map(|_| ()).map_err(|e| e.to_string())
    })
}

/// Both ways of configuring the limit; a disagreement is reported as the route-specific result.
fn parse_with(scheme: &Scheme, d: u16, text: &str) -> Result<Result<(), String>, String> {
    let a = parse_route(scheme, d, text, false);
    let b = parse_route(scheme, d, text, true);
    match (&a, &b) {
        (Ok(x), Ok(y)) if x.is_ok() != y.is_ok() => Err(format!(
            "the limit configured with set_max_nesting_depth {} the filter, the same limit configured through ParserSettings {} it",
            if x.is_ok() { "accepts" } else { "rejects" },
            if y.is_ok() { "accepts" } else { "rejects" }
        )),
        (Ok(_), Err(_)) => b,
        _ => a,
    }
}

fn judge(run: &Run, u: &Uni, scheme: &Scheme, d: u16, e: &Expr, text: &str, stats: &Stats) {
    let typed = filter_ok(u, e).is_ok();
    let dep = depth(e);
    let want = typed && dep <= d as usize;
    let got = parse_with(scheme, d, text);
    run.eval(1);
    match got {
        Ok(r) if r.is_ok() == want => {
            if want {
                stats.accepted.fetch_add(1, Ordering::Relaxed);
                if dep == d as usize {
                    stats.at_limit.fetch_add(1, Ordering::Relaxed);
                }
            } else {
                stats.rejected.fetch_add(1, Ordering::Relaxed);
                if typed && dep == d as usize + 1 {
                    stats.just_over.fetch_add(1, Ordering::Relaxed);
                }
            }
        }
        Ok(r) => run.violation(
            format!("{ID}:limit:{d}:{text}"),
            format!(
                "max_nesting_depth={d}: {text:?} has nesting {dep} (well-typed: {typed}); engine {} it",
                if r.is_ok() { "accepted" } else { "rejected" }
            ),
            case_json("nest", "nesting", text, json!(e), None, json!({"limit": d, "nesting": dep})),
        ),
        Err(p) => run.violation(
            format!("{ID}:panic:{d}:{text}"),
            format!("max_nesting_depth={d}: parse of {text:?}: {p}"),
            case_json("nest", "nesting", text, json!(e), None, json!({"limit": d, "nesting": dep})),
        ),
    }
}

#[derive(Default)]
struct Stats {
    accepted: AtomicU64,
    rejected: AtomicU64,
    at_limit: AtomicU64,
    just_over: AtomicU64,
}

/// Places a Bool-typed nest at the various positions of a larger filter.
fn placements(nest: &Expr) -> Vec<Expr> {
    let t = Expr::IsTrue(Lhs::field("b"));
    let w = |e: &Expr| match e {
        Expr::Chain(..) => Expr::paren(e.clone()),
        _ => e.clone(),
    };
    vec![
        nest.clone(),
        Expr::Chain(LOp::And, vec![w(nest), t.clone()]),
        Expr::Chain(LOp::Or, vec![t.clone(), w(nest)]),
        Expr::Chain(LOp::Xor, vec![t.clone(), w(nest), t.clone()]),
        // second argument of a call
        Expr::cmp(Lhs::call("pick", vec![Arg::Lhs(Lhs::field("s")), as_arg(nest)]), CmpOp::Eq, Rhs::Lit(Lit::str(b"a"))),
        // first argument of a call, compared
        Expr::IsTrue(Lhs::call("fb", vec![as_arg(nest)])),
    ]
}

/// Spelling that writes `Nest::Bang` occurrences as `!`: we simply alternate aliases of `not`.
fn render_alt(e: &Expr, alt: bool) -> String {
    let mut toks = Vec::new();
    toks_expr(e, &mut toks);
    let mut sp = readable_spelling(&toks);
    if alt {
        // every second `not` as `!`, `and` as `&&` etc.
        let mut aliases = Vec::new();
        let mut k = 0;
        for t in &toks {
            if let Tok::Op(kind) = t {
                aliases.push(if k % 2 == 0 { 1 - kind.default_alias() } else { kind.default_alias() });
                k += 1;
            }
        }
        sp.aliases = aliases;
    }
    spell(&toks, &sp)
}

pub fn deep_shape(u: &Uni, kind: usize, depth_wanted: usize) -> Expr {
    // kind 0..=3: pure nests of one construct; 4: cyclic mix
    let mut e = Expr::IsTrue(Lhs::field("t"));
    let cycle: Vec<Nest> = match kind {
        0 => vec![Nest::Paren],
        1 => vec![Nest::Not],
        2 => vec![Nest::Fb],
        3 => vec![Nest::Fade],
        _ => vec![Nest::Paren, Nest::Not, Nest::Fb, Nest::Bang, Nest::Fade, Nest::Paren],
    };
    let mut k = 0;
    while depth(&e) < depth_wanted {
        if let Some(n) = wrap(u, &e, cycle[k % cycle.len()]) {
            if depth(&n) <= depth_wanted {
                e = n;
            }
        }
        k += 1;
        if k > depth_wanted * 4 + 16 {
            break;
        }
    }
    e
}

pub fn deep_quant_shape(u: &Uni, depth_wanted: usize) -> Expr {
    // any( ( ( ... (xb) ... ) ) ) with not/fa mixed in
    let mut e = Expr::IsTrue(Lhs::field("xb"));
    let cycle = [Nest::Paren, Nest::Not, Nest::Fb];
    let mut k = 0;
    while depth(&e) + 1 < depth_wanted {
        if let Some(n) = wrap(u, &e, cycle[k % 3]) {
            if depth(&n) + 1 <= depth_wanted {
                e = n;
            }
        }
        k += 1;
        if k > depth_wanted * 4 + 16 {
            break;
        }
    }
    wrap(u, &e, Nest::Any).unwrap()
}

pub fn run(tier: Tier, seed: u64) -> i32 {
    let run = Run::new(ID, "exploration", tier, seed);
    run.assume("nesting = enclosing parentheses + not operators + quantifiers + call argument lists on the deepest path (reference: ast::depth)");
    let (_, uni) = unis::nest();
    let scheme = uni.build();
    let stats = Stats::default();
    let max_len = tier.pick(5usize, 7usize);
    let max_d = tier.pick(7u16, 8u16);

    // ---- all sequences of nesting constructs up to max_len around both leaves -------------
    let leaves = [Expr::IsTrue(Lhs::field("t")), Expr::IsTrue(Lhs::field("xb"))];
    let nn = NESTS.len();
    for len in 0..=max_len {
        let jobs = nn.pow(len as u32) * leaves.len();
        par_for(jobs, ncpu(), |j| {
            let leaf = &leaves[j % leaves.len()];
            let mut x = j / leaves.len();
            let mut e = leaf.clone();
            let mut bang_mix = false;
            for _ in 0..len {
                let n = NESTS[x % nn];
                x /= nn;
                if n == Nest::Bang {
                    bang_mix = true;
                }
                match wrap(&uni, &e, n) {
                    Some(w) => e = w,
                    None => return, // construct does not apply to this operand type: not a sentence
                }
            }
            if !e.canonical() {
                return;
            }
            // only Bool-typed nests can be filters / be placed; array-typed ones get a quantifier
            let e = match expr_ty(&uni, &e) {
                Ok(Ty::Bool) => e,
                Ok(Ty::Arr(_)) => wrap(&uni, &e, Nest::All).unwrap(),
                _ => return,
            };
            for (pi, p) in placements(&e).into_iter().enumerate() {
                if !p.canonical() {
                    continue;
                }
                let text = render_alt(&p, bang_mix);
                for d in 0..=max_d {
                    judge(&run, &uni, &scheme, d, &p, &text, &stats);
                }
                if j % 977 == 13 && pi == 0 {
                    run.sample(10, || json!({"filter": text, "nesting": depth(&p)}));
                }
            }
            run.count("shapes", 1);
        });
    }

    // ---- large limits: shapes at depth d-1, d, d+1 --------------------------------------------
    // (on a thread with a large stack: the limits beyond the widths of narrow counters - 255 / 256,
    // 65 535 - make engine and reference recurse deeply; the stack bound for *accepted* filters is
    // checked separately below, at 200)
    let large_limits = |limits: &[u16], kinds: usize| {
    for &d in limits {
        for delta in [-1i32, 0, 1] {
            let want = (d as i32 + delta) as usize;
            let mut shapes: Vec<Expr> = (0..kinds).map(|k| deep_shape(&uni, k, want)).collect();
            if kinds == 5 {
                shapes.push(deep_quant_shape(&uni, want));
            }
            for s in shapes {
                assert_eq!(depth(&s), want, "generator must hit the wanted depth");
                for p in placements(&s).into_iter().take(if want > 2000 { 1 } else { 3 }) {
                    // placements 0..2 keep the depth (chains do not nest)
                    let text = render(&p);
                    judge(&run, &uni, &scheme, d, &p, &text, &stats);
                    if d == 128 {
                        // the default parser has limit 128
                        let got = guarded(|| scheme.parse(&text).is_ok());
                        run.eval(1);
                        let wantb = depth(&p) <= 128;
                        if got != Ok(wantb) {
                            run.violation(
                                format!("{ID}:default-limit:{}", depth(&p)),
                                format!("default parser: filter of nesting {} was {:?}, expected accepted={wantb}", depth(&p), got),
                                case_json("nest", "nesting", &text, json!(p), None, json!({"limit": 128, "nesting": depth(&p)})),
                            );
                        }
                        run.count("default_limit_cases", 1);
                    }
                    run.count("large_limit_cases", 1);
                }
                // dropping a very deep expression tree recurses as well: do it here, on the large stack
                drop(s);
            }
        }
    }
    };
    std::thread::scope(|sc| {
        let h = std::thread::Builder::new()
            .name("c13-large-limits".into())
            .stack_size(3 << 30)
            .spawn_scoped(sc, || {
                large_limits(&[16, 64, 128, 129, 200, 255, 256, 257, 300, 1000], 5);
                // the counter's full width, with texts built directly (parentheses, `not`, `!`)
                for (open, close) in [("(", ")"), ("not ", ""), ("!", "")] {
                    for n in [65534usize, 65535, 65536, 70000] {
                        let text = format!("{}t{}", open.repeat(n), close.repeat(n));
                        let want = n <= 65535;
                        let got = parse_with(&scheme, 65535, &text).map(|r| r.is_ok());
                        run.eval(1);
                        run.count("large_limit_cases", 1);
                        if got != Ok(want) {
                            run.violation(
                                format!("{ID}:limit:65535:{n} x {open:?}"),
                                format!("max_nesting_depth=65535: {n} nested {open:?} around `t`: engine {got:?}, expected accepted={want}"),
                                json!({"kind": "c13-large", "open": open, "nesting": n}),
                            );
                        }
                    }
                }
            })
            .expect("spawn");
        if h.join().is_err() {
            run.violation(format!("{ID}:large-limits-panic"), "checking the large limits panicked".into(), json!({"kind": "c13-large"}));
        }
    });

    // ---- brackets inside literals are not nesting ------------------------------------------------
    // (a string, raw string or regex full of parentheses nests nothing)
    {
        let leaves = [
            "s == \"((((((((((\"",
            "s contains \")))(((\"",
            "s matches \"^(a(b(c(d))))$\"",
            "s == r#\"((((\"#",
            "s wildcard \"(*(\"",
            "s in {\"((\" \"(((\"}",
            "idb(s) == \"((((\"",
        ];
        for d in 0..=max_d.min(4) {
            for n in 0..=(d as usize + 1) {
                for leaf in leaves {
                    for (open, close, per) in [("(", ")", 1usize), ("not ", "", 1), ("!(", ")", 2)] {
                        // a call as leaf nests once more by itself; `!(` nests twice per repetition
                        let own = if leaf.starts_with("idb(") { 1 } else { 0 };
                        let reps = n / per;
                        let text = format!("{}{leaf}{}", open.repeat(reps), close.repeat(reps));
                        let n = reps * per;
                        let want = n + own <= d as usize;
                        let got = parse_with(&scheme, d, &text).map(|r| r.is_ok());
                        run.eval(1);
                        run.count("literal_bracket_cases", 1);
                        if got != Ok(want) {
                            run.violation(
                                format!("{ID}:literal-brackets:{d}:{text}"),
                                format!("max_nesting_depth={d}: {text:?} has nesting {} (the brackets inside the literal nest nothing): engine {got:?}, expected accepted={want}", n + own),
                                json!({"kind": "c13-literal", "text": text, "limit": d}),
                            );
                        }
                    }
                }
            }
        }
        // the default limit with 200 brackets inside a literal
        for text in [format!("s == \"{}\"", "(".repeat(200)), format!("s matches \"{}a{}\"", "(".repeat(200), ")".repeat(200)), format!("(s contains \"{}\")", "(".repeat(129))] {
            let got = guarded(|| scheme.parse(&text).is_ok());
            run.eval(1);
            run.count("literal_bracket_cases", 1);
            if got != Ok(true) {
                run.violation(
                    format!("{ID}:literal-brackets:default:{}", &text[..20]),
                    format!("default limit: {:?}... (brackets inside a literal only) was {got:?}, expected accepted", &text[..40]),
                    json!({"kind": "c13-literal", "text": text, "limit": 128}),
                );
            }
        }
    }

    // ---- parse_value with call nests ---------------------------------------------------------------
    for d in 0..=max_d {
        for n in 0..=(max_d as usize + 1) {
            let mut l = Lhs::field("s");
            for _ in 0..n {
                l = Lhs::call("idb", vec![Arg::Lhs(l)]);
            }
            let text = render_value(&l);
            let got = guarded(|| {
                let mut p = scheme.parser();
                p.set_max_nesting_depth(d);
                let a = p.parse_value(&text).is_ok();
                let q = scheme.parser_with_settings(wirefilter::ParserSettings { max_nesting_depth: d, ..Default::default() });
                let b = q.parse_value(&text).is_ok();
                // a disagreement between the two ways of configuring the limit shows as the wrong one
                if a == b { a } else { !(n <= d as usize) }
            });
            run.eval(1);
            run.count("value_nests", 1);
            let want = n <= d as usize;
            if got != Ok(want) {
                run.violation(
                    format!("{ID}:value-limit:{d}:{n}"),
                    format!("max_nesting_depth={d}: value expression with {n} nested calls: engine {:?}, expected accepted={want}", got),
                    case_json("nest", "value-nesting", &text, json!(l), None, json!({"limit": d, "nesting": n})),
                );
            }
        }
    }

    // ---- recursion bounded by d: accepted filters at d = 200 survive a small stack ---------------
    match deep_worker_roundtrip() {
        Ok(n) => run.count("deep_filters_run_on_small_stack", n),
        Err(msg) => run.violation(
            format!("{ID}:deep-recursion"),
            format!("filters accepted with max_nesting_depth=200 did not survive compile/execute/serialize/hash/drop on a 1 MiB stack: {msg}"),
            json!({"kind": "deep-worker", "detail": msg}),
        ),
    }

    run.set("accepted", json!(stats.accepted.load(Ordering::Relaxed)));
    run.set("rejected", json!(stats.rejected.load(Ordering::Relaxed)));
    run.set("accepted_exactly_at_limit", json!(stats.at_limit.load(Ordering::Relaxed)));
    run.set("rejected_one_over_limit", json!(stats.just_over.load(Ordering::Relaxed)));
    run.set("bounds", json!({"max_sequence_length": max_len, "limits": format!("0..={max_d} and 16,64,128,129,200,255,256,257,300,1000,65535")}));
    run.finish(
        stats.at_limit.load(Ordering::Relaxed).min(stats.just_over.load(Ordering::Relaxed)),
        "every applicable sequence of the nesting constructs {(), not, !, any, all, fb/fa, fade} up to the length bound around both leaves x 6 placements x every limit 0..=max; large limits with pure/cyclic shapes at d-1, d, d+1; distinct_nontrivial = min(#accepted exactly at the limit, #rejected exactly one over)",
        true,
        &[("shapes", 1000), ("large_limit_cases", 50), ("deep_filters_run_on_small_stack", 5)],
    )
}

/// Runs in a subprocess: a stack overflow kills the worker, not the check.
fn deep_worker_roundtrip() -> Result<u64, String> {
    let exe = std::env::current_exe().map_err(|e| e.to_string())?;
    let out = std::process::Command::new(exe).args(["worker", "c13deep"]).output().map_err(|e| e.to_string())?;
    let stdout = String::from_utf8_lossy(&out.stdout).to_string();
    if !out.status.success() {
        return Err(format!("worker died with {:?}; output: {}", out.status, stdout.lines().last().unwrap_or("")));
    }
    stdout
        .lines()
        .find_map(|l| l.strip_prefix("OK "))
        .and_then(|n| n.trim().parse::<u64>().ok())
        .ok_or_else(|| format!("worker output not understood: {stdout}"))
}

pub fn worker_deep() -> i32 {
    let (_, uni) = unis::nest();
    let scheme = uni.build();
    let handle = std::thread::Builder::new()
        .stack_size(1 << 20)
        .spawn(move || {
            let mut n = 0u64;
            let mut m = MCtx::new();
            m.insert("t".into(), V::Bool(true));
            m.insert("b".into(), V::Bool(false));
            m.insert("s".into(), V::Bytes(b"a".to_vec()));
            m.insert("xb".into(), V::arr(Ty::Bool, vec![V::Bool(true), V::Bool(false)]));
            let ctx = real_ctx(&scheme, &m);
            let mut shapes: Vec<Expr> = (0..5).map(|k| deep_shape(&uni, k, 200)).collect();
            shapes.push(deep_quant_shape(&uni, 200));
            for e in shapes {
                let text = render(&e);
                let mut p = scheme.parser();
                p.set_max_nesting_depth(200);
                let ast = match p.parse(&text) {
                    Ok(a) => a,
                    Err(e) => {
                        println!("FAIL parse rejected a depth-200 filter: {e}");
                        return 1;
                    }
                };
                let json = serde_json::to_string(&ast).expect("serialize");
                let ffi_ast = wirefilter_ffi::FilterAst::from(ast.clone());
                let h = wirefilter_ffi::wirefilter_get_filter_hash(&ffi_ast);
                if h.status != wirefilter_ffi::Status::Success {
                    println!("FAIL hash");
                    return 1;
                }
                let copy = ast.clone();
                let want = crate::sem::Env::new(&uni, &m).eval_filter(&e);
                let f = ast.compile();
                let got = f.execute(&ctx).expect("same scheme");
                if got != want {
                    println!("FAIL deep filter evaluates to {got}, reference {want} ({} bytes of JSON)", json.len());
                    return 1;
                }
                drop(f);
                drop(copy);
                drop(ffi_ast);
                n += 1;
            }
            println!("OK {n}");
            0
        })
        .expect("spawn");
    handle.join().unwrap_or(3)
}
