//! Reference lexers for integer and quoted byte-string literals (documented forms only).

/// A complete integer literal (the whole text): decimal with optional `-`, `0x` hex, leading-0 octal.
pub fn int_literal(text: &str) -> Option<i64> {
    if let Some(hex) = text.strip_prefix("0x") {
        if hex.is_empty() || !hex.bytes().all(|c| c.is_ascii_hexdigit()) {
            return None;
        }
        let mut v: u128 = 0;
        for c in hex.bytes() {
            v = v.checked_mul(16)? + (c as char).to_digit(16)? as u128;
            if v > i64::MAX as u128 {
                return None;
            }
        }
        return Some(v as i64);
    }
    if text.starts_with('0') {
        // octal (`0` itself is zero)
        if !text.bytes().all(|c| (b'0'..=b'7').contains(&c)) {
            return None;
        }
        let mut v: u128 = 0;
        for c in text.bytes() {
            v = v * 8 + (c - b'0') as u128;
            if v > i64::MAX as u128 {
                return None;
            }
        }
        return Some(v as i64);
    }
    let (neg, digits) = match text.strip_prefix('-') {
        Some(d) => (true, d),
        None => (false, text),
    };
    if digits.is_empty() || !digits.bytes().all(|c| c.is_ascii_digit()) {
        return None;
    }
    let mut v: u128 = 0;
    for c in digits.bytes() {
        v = v * 10 + (c - b'0') as u128;
        if v > (i64::MAX as u128) + 1 {
            return None;
        }
    }
    if neg {
        if v == (i64::MAX as u128) + 1 { Some(i64::MIN) } else { Some(-(v as i64)) }
    } else if v > i64::MAX as u128 {
        None
    } else {
        Some(v as i64)
    }
}

/// A complete quoted byte-string literal (the whole text, including both quotes).
pub fn quoted_literal(text: &str) -> Option<Vec<u8>> {
    let mut chars = text.chars();
    if chars.next()? != '"' {
        return None;
    }
    let mut out = Vec::new();
    loop {
        match chars.next()? {
            '"' => {
                return if chars.next().is_none() { Some(out) } else { None };
            }
            '\\' => match chars.next()? {
                '"' => out.push(b'"'),
                '\\' => out.push(b'\\'),
                'x' => {
                    let h = chars.next()?.to_digit(16)?;
                    let l = chars.next()?.to_digit(16)?;
                    out.push((h * 16 + l) as u8);
                }
                c @ '0'..='7' => {
                    let a = c.to_digit(8)?;
                    let b = chars.next()?.to_digit(8)?;
                    let c2 = chars.next()?.to_digit(8)?;
                    let v = a * 64 + b * 8 + c2;
                    if v > 255 {
                        return None;
                    }
                    out.push(v as u8);
                }
                _ => return None,
            },
            c => {
                let mut buf = [0u8; 4];
                out.extend_from_slice(c.encode_utf8(&mut buf).as_bytes());
            }
        }
    }
}

/// Single-edit neighbourhood of a text over an alphabet: deletions, duplications, insertions, replacements.
pub fn single_edits(text: &str, alphabet: &[char]) -> Vec<String> {
    let chars: Vec<char> = text.chars().collect();
    let mut out = Vec::new();
    for i in 0..chars.len() {
        let mut d = chars.clone();
        d.remove(i);
        out.push(d.iter().collect());
        let mut dup = chars.clone();
        dup.insert(i, chars[i]);
        out.push(dup.iter().collect());
        for a in alphabet {
            let mut r = chars.clone();
            r[i] = *a;
            out.push(r.iter().collect());
        }
    }
    for i in 0..=chars.len() {
        for a in alphabet {
            let mut ins = chars.clone();
            ins.insert(i, *a);
            out.push(ins.iter().collect());
        }
    }
    out.sort();
    out.dedup();
    out
}
