//! A shared corpus of well-typed filters / value expressions over the container universe,
//! used by the checks that quantify over "all generated filters" (C07, C12, C18, C20).

use crate::ast::*;
use crate::sem::filter_ok;
use crate::uni::Uni;

fn f(n: &str) -> Lhs {
    Lhs::field(n)
}
fn fp(n: &str, p: Vec<Idx>) -> Lhs {
    Lhs::fieldp(n, p)
}
fn a(l: Lhs) -> Arg {
    Arg::Lhs(l)
}
fn ints(v: i64) -> Rhs {
    Rhs::Lit(Lit::int(v))
}
fn strs(v: &[u8]) -> Rhs {
    Rhs::Lit(Lit::str(v))
}
fn list(n: &str) -> Rhs {
    Rhs::List(n.to_string())
}

/// Boolean-typed atoms covering every comparison operator, index kind, call shape and `in $list` lhs shape.
pub fn atoms() -> Vec<Expr> {
    let each = |n: &str| fp(n, vec![Idx::Each]);
    let mut v = vec![
        Expr::IsTrue(f("t")),
        Expr::cmp(f("i"), CmpOp::Eq, ints(1)),
        Expr::cmp(f("s"), CmpOp::Eq, strs(b"a")),
        Expr::cmp(f("ip"), CmpOp::Eq, Rhs::Lit(Lit::Ip("1.2.3.4".parse().unwrap()))),
        Expr::cmp(fp("xs", vec![Idx::N(0)]), CmpOp::Ne, strs(b"a")),
        Expr::cmp(fp("ms", vec![Idx::K("a".into())]), CmpOp::Ge, strs(b"b")),
        Expr::cmp(Lhs::call("len", vec![a(f("s"))]), CmpOp::Le, ints(1)),
        Expr::cmp(Lhs::call("cat2", vec![a(f("s")), a(fp("ms", vec![Idx::K("a".into())]))]), CmpOp::Gt, strs(b"a+")),
        Expr::cmp(Lhs::call("opt", vec![a(f("s")), a(f("i"))]), CmpOp::Lt, strs(b"b")),
        Expr::cmp(f("i"), CmpOp::InList, list("a")),
        Expr::cmp(f("s"), CmpOp::InList, list("b.c")),
        Expr::cmp(f("ip"), CmpOp::InList, list("c_1")),
        Expr::cmp(Lhs::call("idb", vec![a(f("s"))]), CmpOp::InList, list("b")),
        Expr::cmp(fp("xs", vec![Idx::N(1)]), CmpOp::InList, list("b")),
        Expr::cmp(
            Lhs::call("pick", vec![a(f("s")), Arg::Logical(Expr::cmp(f("i"), CmpOp::InList, list("a")))]),
            CmpOp::Eq,
            strs(b"a"),
        ),
        Expr::any(QArg::Logical(Expr::cmp(each("xs"), CmpOp::Eq, strs(b"a")))),
        Expr::all(QArg::Logical(Expr::cmp(each("xi"), CmpOp::InList, list("a")))),
        Expr::any(QArg::Logical(Expr::cmp(
            Lhs::callp("idb", vec![a(each("xs"))], vec![Idx::Each]),
            CmpOp::InList,
            list("b"),
        ))),
        Expr::any(QArg::Lhs(f("xb"))),
        Expr::all(QArg::Logical(Expr::Chain(
            LOp::And,
            vec![Expr::paren(Expr::IsTrue(f("xb"))), Expr::IsTrue(f("yb"))],
        ))),
        Expr::cmp(f("i"), CmpOp::BitAnd, ints(6)),
        Expr::cmp(f("s"), CmpOp::Contains, strs(b"a")),
        Expr::cmp(f("s"), CmpOp::Matches, Rhs::Regex("^a.*b$".into(), BytesForm::Quoted)),
        Expr::cmp(f("s"), CmpOp::Wildcard, strs(b"a*")),
        Expr::cmp(f("s"), CmpOp::StrictWildcard, Rhs::Lit(Lit::Bytes(b"A*b".to_vec(), BytesForm::Raw(1)))),
        Expr::cmp(f("i"), CmpOp::In, Rhs::IntSet(vec![IntItem { lo: 1, hi: Some(3) }, IntItem { lo: 7, hi: None }])),
        Expr::cmp(
            f("ip"),
            CmpOp::In,
            Rhs::IpSet(vec![
                IpItem::Cidr("10.0.0.0".parse().unwrap(), 8),
                IpItem::Addr("::1".parse().unwrap()),
                IpItem::Range("1.1.1.1".parse().unwrap(), "1.1.1.9".parse().unwrap()),
            ]),
        ),
        Expr::cmp(
            f("s"),
            CmpOp::In,
            Rhs::BytesSet(vec![(b"a".to_vec(), BytesForm::Quoted), (b"ab".to_vec(), BytesForm::Hex(':'))]),
        ),
        Expr::cmp(fp("xxi", vec![Idx::N(0), Idx::N(1)]), CmpOp::Eq, ints(2)),
        Expr::any(QArg::Logical(Expr::cmp(fp("mxi", vec![Idx::Each, Idx::Each]), CmpOp::Lt, ints(2)))),
        Expr::cmp(Lhs::call("concat", vec![a(f("s")), Arg::Lit(Lit::str(b"x")), a(fp("xs", vec![Idx::N(0)]))]), CmpOp::Eq, strs(b"ax")),
        Expr::IsTrue(Lhs::call("isb", vec![a(f("u"))])),
        Expr::cmp(Lhs::call("ctxfn", vec![a(f("s")), Arg::Lit(Lit::int(2))]), CmpOp::Ne, strs(b"")),
        Expr::cmp(Lhs::call("sum", vec![a(fp("xxi", vec![Idx::N(0)]))]), CmpOp::Ge, ints(3)),
        Expr::cmp(Lhs::call("lit", vec![a(f("s")), Arg::Lit(Lit::Int(16, IntForm::Oct))]), CmpOp::Eq, ints(17)),
    ];
    // value forms of literals
    v.push(Expr::cmp(f("s"), CmpOp::Eq, Rhs::Lit(Lit::Bytes(b"a\xffb".to_vec(), BytesForm::Quoted))));
    v.push(Expr::cmp(f("s"), CmpOp::Ne, Rhs::Lit(Lit::Bytes(b"ab".to_vec(), BytesForm::Hex('-')))));
    // literals that are valid UTF-8 without being ASCII (escaped and typed directly)
    v.push(Expr::cmp(f("s"), CmpOp::Eq, Rhs::Lit(Lit::Bytes("\u{e9}".as_bytes().to_vec(), BytesForm::Quoted))));
    v.push(Expr::cmp(f("s"), CmpOp::Contains, Rhs::Lit(Lit::Bytes("a\u{e9}\u{1f622}".as_bytes().to_vec(), BytesForm::Raw(0)))));
    v.push(Expr::cmp(f("s"), CmpOp::Wildcard, Rhs::Lit(Lit::Bytes("\u{e9}*".as_bytes().to_vec(), BytesForm::Raw(1)))));
    v.push(Expr::cmp(
        f("s"),
        CmpOp::In,
        Rhs::BytesSet(vec![("\u{e9}".as_bytes().to_vec(), BytesForm::Raw(0)), (b"\xc3\xa9".to_vec(), BytesForm::Hex(':')), (b"\xc3".to_vec(), BytesForm::Quoted)]),
    ));
    v.push(Expr::cmp(Lhs::call("concat", vec![a(f("s")), Arg::Lit(Lit::Bytes("\u{e9}".as_bytes().to_vec(), BytesForm::Quoted))]), CmpOp::Ne, strs(b"a")));
    // an `in $list` comparison nested in the left-hand side of another one, with a field after it
    v.push(Expr::cmp(
        Lhs::call(
            "cat2",
            vec![
                a(Lhs::call("pick", vec![a(f("s")), Arg::Logical(Expr::cmp(f("i"), CmpOp::InList, list("a")))])),
                a(fp("xs", vec![Idx::N(0)])),
            ],
        ),
        CmpOp::InList,
        list("b"),
    ));
    // a negation as the first token of a quantifier / call argument
    v.push(Expr::any(QArg::Logical(Expr::not(Expr::IsTrue(f("xb"))))));
    v.push(Expr::IsTrue(Lhs::call("isb", vec![Arg::Logical(Expr::not(Expr::IsTrue(f("t"))))])));
    v.push(Expr::cmp(f("i"), CmpOp::Ge, Rhs::Lit(Lit::Int(i64::MIN, IntForm::Dec))));
    v.push(Expr::cmp(f("i"), CmpOp::Le, Rhs::Lit(Lit::Int(0o777, IntForm::Oct))));
    v.push(Expr::cmp(f("ip"), CmpOp::Lt, Rhs::Lit(Lit::Ip("::ffff:1.2.3.4".parse().unwrap()))));
    v
}

fn wrap_chain_operand(op: LOp, e: &Expr) -> Expr {
    match e {
        Expr::Chain(o, _) if *o <= op => Expr::paren(e.clone()),
        _ => e.clone(),
    }
}

/// Filters: atoms, unary wrappers, all pairs x operators, triples over the first `triple_n` atoms.
pub fn filters(u: &Uni, triple_n: usize) -> Vec<Expr> {
    let at = atoms();
    let mut out: Vec<Expr> = Vec::new();
    for x in &at {
        out.push(x.clone());
        out.push(Expr::not(x.clone()));
        out.push(Expr::paren(x.clone()));
        out.push(Expr::not(Expr::paren(Expr::not(x.clone()))));
        out.push(Expr::IsTrue(Lhs::call("fb", vec![if let Expr::IsTrue(l) = x { Arg::Lhs(l.clone()) } else if arg_form_ok(x) { Arg::Logical(x.clone()) } else { Arg::Logical(Expr::paren(x.clone())) }])));
    }
    let ops = [LOp::And, LOp::Xor, LOp::Or];
    for x in &at {
        for y in &at {
            for op in ops {
                out.push(Expr::Chain(op, vec![x.clone(), y.clone()]));
            }
        }
    }
    let small: Vec<Expr> = at.iter().take(triple_n).cloned().collect();
    for x in &small {
        for y in &small {
            for z in &small {
                for o1 in ops {
                    for o2 in ops {
                        out.push(crate::checks::c01::build_flat(&[x.clone(), y.clone(), z.clone()], &[o1, o2]));
                        // right-nested parenthesised variant
                        let inner = Expr::Chain(o2, vec![y.clone(), z.clone()]);
                        out.push(Expr::Chain(o1, vec![wrap_chain_operand(o1, x), Expr::paren(inner)]));
                    }
                }
            }
        }
    }
    out.retain(|e| e.canonical() && filter_ok(u, e).is_ok());
    out.sort();
    out.dedup();
    out
}

/// Value expressions (no `[*]` at top level).
pub fn values() -> Vec<Lhs> {
    vec![
        f("s"),
        f("xs"),
        fp("xs", vec![Idx::N(0)]),
        fp("mxi", vec![Idx::K("a".into()), Idx::N(0)]),
        Lhs::call("idb", vec![a(f("s"))]),
        Lhs::call("cat2", vec![a(fp("ms", vec![Idx::K("a".into())])), a(f("s"))]),
        Lhs::call("opt", vec![a(fp("ms", vec![Idx::K("a".into())])), Arg::Lit(Lit::int(3)), a(f("s"))]),
        Lhs::call("pick", vec![a(f("s")), Arg::Logical(Expr::cmp(f("i"), CmpOp::InList, list("a")))]),
        Lhs::call("idb", vec![a(fp("xs", vec![Idx::Each]))]),
        Lhs::callp("arr", vec![a(Lhs::call("up", vec![a(f("s"))]))], vec![Idx::N(0)]),
        Lhs::call("fa", vec![Arg::Logical(Expr::cmp(fp("xi", vec![Idx::Each]), CmpOp::InList, list("a")))]),
        Lhs::call("cnt", vec![a(f("xb"))]),
    ]
}
