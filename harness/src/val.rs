//! Model-side types and values, and their conversion to / from the engine's.

use serde::{Deserialize, Serialize};
use std::collections::BTreeMap;
use std::net::IpAddr;
use wirefilter::{Array, LhsValue, Map, Type};

#[derive(Clone, Debug, PartialEq, Eq, Hash, PartialOrd, Ord, Serialize, Deserialize)]
pub enum Ty {
    Bool,
    Int,
    Bytes,
    Ip,
    Arr(Box<Ty>),
    Map(Box<Ty>),
}

impl Ty {
    pub fn arr(t: Ty) -> Ty {
        Ty::Arr(Box::new(t))
    }
    pub fn map(t: Ty) -> Ty {
        Ty::Map(Box::new(t))
    }
    pub fn elem(&self) -> Option<&Ty> {
        match self {
            Ty::Arr(t) | Ty::Map(t) => Some(t),
            _ => None,
        }
    }
    pub fn to_engine(&self) -> Type {
        match self {
            Ty::Bool => Type::Bool,
            Ty::Int => Type::Int,
            Ty::Bytes => Type::Bytes,
            Ty::Ip => Type::Ip,
            Ty::Arr(t) => Type::Array(t.to_engine().into()),
            Ty::Map(t) => Type::Map(t.to_engine().into()),
        }
    }
    pub fn from_engine(t: Type) -> Ty {
        match t {
            Type::Bool => Ty::Bool,
            Type::Int => Ty::Int,
            Type::Bytes => Ty::Bytes,
            Type::Ip => Ty::Ip,
            Type::Array(t) => Ty::arr(Ty::from_engine(t.into())),
            Type::Map(t) => Ty::map(Ty::from_engine(t.into())),
        }
    }
    /// Short printable name, e.g. `A(M(Int))`.
    pub fn short(&self) -> String {
        match self {
            Ty::Bool => "Bool".into(),
            Ty::Int => "Int".into(),
            Ty::Bytes => "Bytes".into(),
            Ty::Ip => "Ip".into(),
            Ty::Arr(t) => format!("A({})", t.short()),
            Ty::Map(t) => format!("M({})", t.short()),
        }
    }
    pub fn depth(&self) -> usize {
        match self {
            Ty::Arr(t) | Ty::Map(t) => 1 + t.depth(),
            _ => 0,
        }
    }
}

#[derive(Clone, Debug, PartialEq, Eq, Hash, PartialOrd, Ord, Serialize, Deserialize)]
pub enum V {
    Bool(bool),
    Int(i64),
    Bytes(Vec<u8>),
    Ip(IpAddr),
    /// element type, elements
    Arr(Ty, Vec<V>),
    /// element type, entries in ascending key order
    Map(Ty, #[serde(with = "pairs")] BTreeMap<Vec<u8>, V>),
}

impl V {
    pub fn ty(&self) -> Ty {
        match self {
            V::Bool(_) => Ty::Bool,
            V::Int(_) => Ty::Int,
            V::Bytes(_) => Ty::Bytes,
            V::Ip(_) => Ty::Ip,
            V::Arr(t, _) => Ty::arr(t.clone()),
            V::Map(t, _) => Ty::map(t.clone()),
        }
    }

    pub fn bytes(s: &[u8]) -> V {
        V::Bytes(s.to_vec())
    }

    pub fn arr(t: Ty, items: Vec<V>) -> V {
        V::Arr(t, items)
    }

    pub fn map(t: Ty, items: Vec<(&[u8], V)>) -> V {
        V::Map(t, items.into_iter().map(|(k, v)| (k.to_vec(), v)).collect())
    }

    /// Deep well-typedness: every element has exactly the declared element type.
    pub fn well_typed(&self) -> bool {
        match self {
            V::Arr(t, items) => items.iter().all(|v| v.ty() == *t && v.well_typed()),
            V::Map(t, items) => items.values().all(|v| v.ty() == *t && v.well_typed()),
            _ => true,
        }
    }

    /// Converts to an owned engine value. The value must be well typed.
    pub fn to_engine(&self) -> LhsValue<'static> {
        match self {
            V::Bool(b) => LhsValue::Bool(*b),
            V::Int(i) => LhsValue::Int(*i),
            V::Bytes(b) => LhsValue::Bytes(b.clone().into()),
            V::Ip(ip) => LhsValue::Ip(*ip),
            V::Arr(t, items) => LhsValue::Array(
                Array::try_from_iter(t.to_engine(), items.iter().map(|v| v.to_engine()))
                    .expect("model array is well typed"),
            ),
            V::Map(t, items) => LhsValue::Map(
                Map::try_from_iter::<wirefilter::TypeMismatchError, _>(
                    t.to_engine(),
                    items
                        .iter()
                        .map(|(k, v)| Ok((k.clone().into_boxed_slice(), v.to_engine()))),
                )
                .expect("model map is well typed"),
            ),
        }
    }

    /// Reads an engine value back into the model, recording the *declared*
    /// element types of containers (so a deep type walk can compare them).
    pub fn from_engine(v: &LhsValue<'_>) -> V {
        match v {
            LhsValue::Bool(b) => V::Bool(*b),
            LhsValue::Int(i) => V::Int(*i),
            LhsValue::Bytes(b) => V::Bytes(b.to_vec()),
            LhsValue::Ip(ip) => V::Ip(*ip),
            LhsValue::Array(a) => V::Arr(
                Ty::from_engine(a.value_type()),
                a.iter().map(V::from_engine).collect(),
            ),
            LhsValue::Map(m) => V::Map(
                Ty::from_engine(m.value_type()),
                m.iter()
                    .map(|(k, v)| (k.to_vec(), V::from_engine(v)))
                    .collect(),
            ),
        }
    }

    pub fn short(&self) -> String {
        match self {
            V::Bool(b) => format!("{b}"),
            V::Int(i) => format!("{i}"),
            V::Bytes(b) => format!("b{:?}", String::from_utf8_lossy(b)),
            V::Ip(ip) => format!("{ip}"),
            V::Arr(_, items) => format!(
                "[{}]",
                items.iter().map(|v| v.short()).collect::<Vec<_>>().join(",")
            ),
            V::Map(_, items) => format!(
                "{{{}}}",
                items
                    .iter()
                    .map(|(k, v)| format!("{:?}:{}", String::from_utf8_lossy(k), v.short()))
                    .collect::<Vec<_>>()
                    .join(",")
            ),
        }
    }
}

/// JSON has string keys only: (de)serialize byte-keyed maps as lists of pairs.
mod pairs {
    use super::V;
    use serde::{Deserialize, Deserializer, Serialize, Serializer};
    use std::collections::BTreeMap;

    pub fn serialize<S: Serializer>(m: &BTreeMap<Vec<u8>, V>, s: S) -> Result<S::Ok, S::Error> {
        m.iter().collect::<Vec<_>>().serialize(s)
    }

    pub fn deserialize<'de, D: Deserializer<'de>>(d: D) -> Result<BTreeMap<Vec<u8>, V>, D::Error> {
        Ok(Vec::<(Vec<u8>, V)>::deserialize(d)?.into_iter().collect())
    }
}
