//! Controlled cooperative scheduler + preemption-bounded DFS over schedules (shape S).
//!
//! Real OS threads execute the real code; exactly one of them runs at any time. At every
//! scheduling point (engine hook, harness function / matcher callback, explicit `point`) the
//! running thread asks the schedule which thread continues.

use std::sync::{Arc, Condvar, Mutex};

#[derive(Clone, Debug, PartialEq, Eq)]
pub struct PointRec {
    /// thread that reached the point
    pub thread: usize,
    pub site: &'static str,
    /// threads that could run next (canonical order: running thread first if still enabled, then ascending)
    pub enabled: Vec<usize>,
    /// index into `enabled` that was taken
    pub choice: usize,
    /// the running thread is still enabled at this point (switching away from it is a preemption)
    pub running_enabled: bool,
}

struct State {
    /// thread currently allowed to run (usize::MAX = nobody yet)
    current: usize,
    finished: Vec<bool>,
    started: Vec<bool>,
    prefix: Vec<usize>,
    trace: Vec<PointRec>,
    /// set when a choice in the prefix was out of range (machinery error)
    diverged: Option<String>,
}

pub struct Sched {
    n: usize,
    st: Mutex<State>,
    cv: Condvar,
}

thread_local! {
    static MY: std::cell::RefCell<Option<(usize, Arc<Sched>)>> = const { std::cell::RefCell::new(None) };
}

impl Sched {
    fn new(n: usize, prefix: Vec<usize>) -> Arc<Sched> {
        Arc::new(Sched {
            n,
            st: Mutex::new(State { current: usize::MAX, finished: vec![false; n], started: vec![false; n], prefix, trace: Vec::new(), diverged: None }),
            cv: Condvar::new(),
        })
    }

    /// Decides who runs next; called with the lock held by thread `me` (or by the driver when me == MAX).
    fn decide(&self, st: &mut State, me: usize, site: &'static str) {
        let mut enabled: Vec<usize> = Vec::new();
        let running_enabled = me != usize::MAX && !st.finished[me];
        if running_enabled {
            enabled.push(me);
        }
        for t in 0..self.n {
            if t != me && !st.finished[t] {
                enabled.push(t);
            }
        }
        if enabled.is_empty() {
            st.current = usize::MAX;
            return;
        }
        let k = st.trace.len();
        let choice = if k < st.prefix.len() {
            let c = st.prefix[k];
            if c >= enabled.len() {
                st.diverged = Some(format!("replay diverged at point {k}: choice {c} but only {} enabled", enabled.len()));
                0
            } else {
                c
            }
        } else {
            0
        };
        st.current = enabled[choice];
        st.trace.push(PointRec { thread: me, site, enabled, choice, running_enabled });
    }

    /// A scheduling point reached by the calling (registered) thread.
    pub fn point(self: &Arc<Self>, me: usize, site: &'static str) {
        let mut st = self.st.lock().unwrap();
        debug_assert_eq!(st.current, me);
        self.decide(&mut st, me, site);
        if st.current == me {
            // nobody else has to wake up
            return;
        }
        self.cv.notify_all();
        while st.current != me {
            st = self.cv.wait(st).unwrap();
        }
    }

    fn wait_turn(self: &Arc<Self>, me: usize) {
        let mut st = self.st.lock().unwrap();
        st.started[me] = true;
        self.cv.notify_all();
        while st.current != me {
            st = self.cv.wait(st).unwrap();
        }
    }

    fn finish(self: &Arc<Self>, me: usize) {
        let mut st = self.st.lock().unwrap();
        st.finished[me] = true;
        self.decide(&mut st, me, "finish");
        self.cv.notify_all();
    }
}

/// Scheduling point for the current thread (no-op on threads not under the scheduler).
pub fn yield_now(site: &'static str) {
    let reg = MY.with(|m| m.borrow().clone());
    if let Some((me, s)) = reg {
        s.point(me, site);
    }
}

fn engine_hook(site: &'static str) {
    yield_now(site);
}

pub struct Execution<R> {
    pub results: Vec<R>,
    pub trace: Vec<PointRec>,
}

/// Runs the thread bodies once under the schedule prefix (default choice afterwards).
pub fn run_once<R: Send + 'static>(bodies: Vec<Box<dyn FnOnce() -> R + Send>>, prefix: &[usize]) -> Result<Execution<R>, String> {
    let n = bodies.len();
    let sched = Sched::new(n, prefix.to_vec());
    let mut handles = Vec::new();
    for (i, body) in bodies.into_iter().enumerate() {
        let s = sched.clone();
        handles.push(
            std::thread::Builder::new()
                .name(format!("sched-{i}"))
                .spawn(move || {
                    MY.with(|m| *m.borrow_mut() = Some((i, s.clone())));
                    wirefilter::verif::set_yield_hook(Some(engine_hook));
                    crate::uni::HARNESS_YIELD.with(|c| c.set(Some(engine_hook)));
                    s.wait_turn(i);
                    let r = std::panic::catch_unwind(std::panic::AssertUnwindSafe(body));
                    wirefilter::verif::set_yield_hook(None);
                    crate::uni::HARNESS_YIELD.with(|c| c.set(None));
                    MY.with(|m| *m.borrow_mut() = None);
                    s.finish(i);
                    r
                })
                .map_err(|e| e.to_string())?,
        );
    }
    // wait until every thread is parked at its start, then make the first decision
    {
        let mut st = sched.st.lock().unwrap();
        while !st.started.iter().all(|b| *b) {
            st = sched.cv.wait(st).unwrap();
        }
        sched.decide(&mut st, usize::MAX, "start");
        sched.cv.notify_all();
    }
    let mut results = Vec::new();
    let mut panicked = None;
    for (i, h) in handles.into_iter().enumerate() {
        match h.join() {
            Ok(Ok(r)) => results.push(r),
            Ok(Err(p)) => {
                let msg = if let Some(s) = p.downcast_ref::<&str>() { (*s).to_string() } else if let Some(s) = p.downcast_ref::<String>() { s.clone() } else { "<panic>".into() };
                panicked = Some(format!("thread {i} panicked: {msg}"));
            }
            Err(_) => panicked = Some(format!("thread {i} died")),
        }
    }
    let st = sched.st.lock().unwrap();
    if let Some(d) = &st.diverged {
        return Err(d.clone());
    }
    if let Some(p) = panicked {
        return Err(format!("PANIC {p}"));
    }
    Ok(Execution { results, trace: st.trace.clone() })
}

#[derive(Default, Debug, Clone)]
pub struct ExploreStats {
    pub schedules: u64,
    pub points_total: u64,
    pub max_points: usize,
    pub switches: u64,
    pub capped: bool,
}

/// Preemption-bounded DFS: explores every schedule with at most `bound` preemptions.
/// `mk` creates fresh thread bodies for each execution; `check` judges one execution.
pub fn explore<R: Send + 'static>(
    mk: &dyn Fn() -> Vec<Box<dyn FnOnce() -> R + Send>>,
    bound: usize,
    max_schedules: u64,
    check: &mut dyn FnMut(&Execution<R>, &[usize]) -> bool,
    on_error: &mut dyn FnMut(String, &[usize]),
) -> ExploreStats {
    let mut stats = ExploreStats::default();
    let mut stack: Vec<Vec<usize>> = vec![vec![]];
    while let Some(prefix) = stack.pop() {
        if stats.schedules >= max_schedules {
            stats.capped = true;
            break;
        }
        let x = match run_once(mk(), &prefix) {
            Ok(x) => x,
            Err(e) => {
                stats.schedules += 1;
                on_error(e, &prefix);
                continue;
            }
        };
        stats.schedules += 1;
        stats.points_total += x.trace.len() as u64;
        stats.max_points = stats.max_points.max(x.trace.len());
        let choices: Vec<usize> = x.trace.iter().map(|p| p.choice).collect();
        // thread switches in this schedule
        stats.switches += x.trace.windows(2).filter(|w| w[0].enabled[w[0].choice] != w[1].enabled.first().copied().unwrap_or(usize::MAX) || w[0].choice != 0).count() as u64;
        if !check(&x, &choices) {
            // keep exploring: other schedules may show other violations, but bound the noise
        }
        // preemptions before point i
        let mut pre = 0usize;
        for i in 0..x.trace.len() {
            let p = &x.trace[i];
            if i >= prefix.len() {
                for alt in 1..p.enabled.len() {
                    let cost = pre + if p.running_enabled { 1 } else { 0 };
                    if cost > bound {
                        continue;
                    }
                    let mut next: Vec<usize> = choices[..i].to_vec();
                    next.push(alt);
                    stack.push(next);
                }
            }
            if p.running_enabled && p.choice != 0 {
                pre += 1;
            }
        }
    }
    stats
}

pub fn format_schedule(trace: &[PointRec]) -> Vec<String> {
    trace.iter().map(|p| format!("T{}@{} -> T{}", if p.thread == usize::MAX { 9 } else { p.thread }, p.site, p.enabled[p.choice])).collect()
}
