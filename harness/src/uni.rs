//! Universes: small explicit schemes (fields, harness functions, lists) that
//! exist both as a real `wirefilter::Scheme` and as model data.

use crate::val::{Ty, V};
use serde::{Deserialize, Serialize};
use std::cell::RefCell;
use std::collections::{BTreeMap, BTreeSet};
use wirefilter::{
    ExecutionContext, FunctionArgs, LhsValue, ListDefinition, ListMatcher, Scheme, SchemeBuilder,
    SimpleFunctionArgKind, SimpleFunctionDefinition, SimpleFunctionImpl, SimpleFunctionOptParam,
    SimpleFunctionParam, Type,
};

#[derive(Clone, Copy, Debug, PartialEq, Eq)]
pub enum Kind {
    Field,
    Literal,
    Both,
}

/// Model-side argument: a value or a typed absence.
pub type MArg = Result<V, Ty>;

#[derive(Clone, Copy, Debug, PartialEq, Eq)]
pub enum Special {
    /// the engine's built-in ConcatFunction
    Concat,
    /// harness FunctionDefinition with a per-call context (C03)
    CtxFn,
    /// harness FunctionDefinition that panics on demand (C20)
    Panicky,
}

#[derive(Clone)]
pub struct FnSpec {
    pub name: &'static str,
    pub params: Vec<(Kind, Ty)>,
    pub opts: Vec<(Kind, V)>,
    pub ret: Ty,
    pub imp: fn(&[MArg]) -> Option<V>,
    pub real: Option<for<'i, 'a> fn(FunctionArgs<'i, 'a>) -> Option<LhsValue<'a>>>,
    pub special: Option<Special>,
}

// ---- call log (thread local), filled by the real wrappers --------------------

#[derive(Clone, Debug, PartialEq, Eq, Serialize, Deserialize)]
pub struct CallRec {
    pub name: String,
    pub args: Vec<MArg>,
}

thread_local! {
    pub static CALL_LOG: RefCell<Option<Vec<CallRec>>> = const { RefCell::new(None) };
    /// invoked (if set) at the start of every harness function / matcher call: scheduling point
    pub static HARNESS_YIELD: std::cell::Cell<Option<fn(&'static str)>> = const { std::cell::Cell::new(None) };
}

pub fn log_start() {
    CALL_LOG.with(|l| *l.borrow_mut() = Some(Vec::new()));
}

pub fn log_take() -> Vec<CallRec> {
    CALL_LOG.with(|l| l.borrow_mut().take().unwrap_or_default())
}

fn log_call(name: &str, args: &[MArg]) {
    CALL_LOG.with(|l| {
        if let Some(v) = l.borrow_mut().as_mut() {
            v.push(CallRec { name: name.to_string(), args: args.to_vec() });
        }
    });
}

#[inline]
pub fn harness_yield(site: &'static str) {
    if let Some(h) = HARNESS_YIELD.with(|c| c.get()) {
        h(site)
    }
}

fn collect_args(args: FunctionArgs<'_, '_>) -> Vec<MArg> {
    let mut out = Vec::with_capacity(args.len());
    for a in args {
        out.push(match a {
            Ok(v) => Ok(V::from_engine(&v)),
            Err(t) => Err(Ty::from_engine(t)),
        });
    }
    out
}

macro_rules! harness_fn {
    ($real:ident, $name:literal, $imp:path) => {
        pub fn $real<'a>(args: FunctionArgs<'_, 'a>) -> Option<LhsValue<'a>> {
            harness_yield($name);
            let margs = collect_args(args);
            log_call($name, &margs);
            $imp(&margs).map(|v| v.to_engine())
        }
    };
}

// ---- model implementations -----------------------------------------------------

fn m_idb(a: &[MArg]) -> Option<V> {
    a[0].clone().ok()
}
fn m_len(a: &[MArg]) -> Option<V> {
    match &a[0] {
        Ok(V::Bytes(b)) => Some(V::Int(b.len() as i64)),
        _ => None,
    }
}
fn m_up(a: &[MArg]) -> Option<V> {
    match &a[0] {
        Ok(V::Bytes(b)) => Some(V::Bytes(b.to_ascii_uppercase())),
        _ => None,
    }
}
fn m_nie(a: &[MArg]) -> Option<V> {
    match &a[0] {
        Ok(V::Bytes(b)) if !b.is_empty() => Some(V::Bytes(b.clone())),
        _ => None,
    }
}
/// arr(Bytes) -> Array(Bytes): the bytes split into single-byte strings
fn m_arr(a: &[MArg]) -> Option<V> {
    match &a[0] {
        Ok(V::Bytes(b)) => Some(V::Arr(Ty::Bytes, b.iter().map(|c| V::Bytes(vec![*c])).collect())),
        _ => None,
    }
}
/// opt(Bytes, [Int = 7], [Bytes = "d"]) -> Bytes: renders what it saw
fn m_opt(a: &[MArg]) -> Option<V> {
    let mut out = Vec::new();
    match &a[0] {
        Ok(V::Bytes(b)) => out.extend_from_slice(b),
        _ => return None,
    }
    out.push(b'|');
    match a.get(1) {
        Some(Ok(V::Int(i))) => out.extend_from_slice(format!("{i}").as_bytes()),
        Some(Err(_)) => out.extend_from_slice(b"nil"),
        _ => out.extend_from_slice(b"?"),
    }
    out.push(b'|');
    match a.get(2) {
        Some(Ok(V::Bytes(b))) => out.extend_from_slice(b),
        Some(Err(_)) => out.extend_from_slice(b"nil"),
        _ => out.extend_from_slice(b"?"),
    }
    Some(V::Bytes(out))
}
/// lit(Field Bytes, Literal Int) -> Int: len + literal
fn m_lit(a: &[MArg]) -> Option<V> {
    match (&a[0], &a[1]) {
        (Ok(V::Bytes(b)), Ok(V::Int(i))) => Some(V::Int((b.len() as i64).wrapping_add(*i))),
        _ => None,
    }
}
/// both(Both Bytes) -> Bytes
fn m_both(a: &[MArg]) -> Option<V> {
    a[0].clone().ok()
}
/// sum(Array(Int)) -> Int
fn m_sum(a: &[MArg]) -> Option<V> {
    match &a[0] {
        Ok(V::Arr(_, items)) => Some(V::Int(items.iter().fold(0i64, |acc, v| match v {
            V::Int(i) => acc.wrapping_add(*i),
            _ => acc,
        }))),
        _ => None,
    }
}
/// cat2(Bytes, Bytes) -> Bytes: "a+b" with "nil" for absent; absent only if first absent
fn m_cat2(a: &[MArg]) -> Option<V> {
    let mut out = Vec::new();
    match &a[0] {
        Ok(V::Bytes(b)) => out.extend_from_slice(b),
        _ => return None,
    }
    out.push(b'+');
    match &a[1] {
        Ok(V::Bytes(b)) => out.extend_from_slice(b),
        _ => out.extend_from_slice(b"nil"),
    }
    Some(V::Bytes(out))
}
/// pick(Bytes, Bool) -> Bytes: the bytes if flag else absent
fn m_pick(a: &[MArg]) -> Option<V> {
    match (&a[0], &a[1]) {
        (Ok(V::Bytes(b)), Ok(V::Bool(true))) => Some(V::Bytes(b.clone())),
        _ => None,
    }
}
/// cnt(Array(Bool)) -> Int: number of true elements
fn m_cnt(a: &[MArg]) -> Option<V> {
    match &a[0] {
        Ok(V::Arr(_, items)) => Some(V::Int(items.iter().filter(|v| **v == V::Bool(true)).count() as i64)),
        _ => None,
    }
}
/// inc(Int) -> Int
fn m_inc(a: &[MArg]) -> Option<V> {
    match &a[0] {
        Ok(V::Int(i)) => Some(V::Int(i.wrapping_add(1))),
        _ => None,
    }
}
/// isb(Bool) -> Bool (identity on booleans; absent stays absent)
fn m_isb(a: &[MArg]) -> Option<V> {
    a[0].clone().ok()
}
/// nul() -> Bytes: zero-argument function returning "z"
fn m_nul(_: &[MArg]) -> Option<V> {
    Some(V::Bytes(b"z".to_vec()))
}
/// fb(Bool) -> Bool and fa(Array(Bool)) -> Array(Bool): identity, used for nesting shapes
fn m_id(a: &[MArg]) -> Option<V> {
    a[0].clone().ok()
}

/// racy(Bytes) -> Int: deliberately non-atomic read-modify-write on a shared counter with a
/// scheduling point in the middle. Only used as the explorer's canary (C18): its result depends
/// on the interleaving, so an explorer that never sees two outcomes explores nothing.
pub static RACY_COUNTER: std::sync::atomic::AtomicI64 = std::sync::atomic::AtomicI64::new(0);

fn m_racy(_: &[MArg]) -> Option<V> {
    use std::sync::atomic::Ordering::SeqCst;
    let v = RACY_COUNTER.load(SeqCst);
    harness_yield("racy.between-load-and-store");
    RACY_COUNTER.store(v + 1, SeqCst);
    Some(V::Int(v + 1))
}

harness_fn!(r_racy, "racy", m_racy);
harness_fn!(r_idb, "idb", m_idb);
harness_fn!(r_len, "len", m_len);
harness_fn!(r_up, "up", m_up);
harness_fn!(r_nie, "nie", m_nie);
harness_fn!(r_arr, "arr", m_arr);
harness_fn!(r_opt, "opt", m_opt);
harness_fn!(r_lit, "lit", m_lit);
harness_fn!(r_both, "both", m_both);
harness_fn!(r_sum, "sum", m_sum);
harness_fn!(r_cat2, "cat2", m_cat2);
harness_fn!(r_pick, "pick", m_pick);
harness_fn!(r_cnt, "cnt", m_cnt);
harness_fn!(r_inc, "inc", m_inc);
harness_fn!(r_isb, "isb", m_isb);
harness_fn!(r_nul, "nul", m_nul);
harness_fn!(r_fb, "fb", m_id);
harness_fn!(r_fa, "fa", m_id);
harness_fn!(r_fade, "fade", m_id);
harness_fn!(r_idxi, "idxi", m_id);
harness_fn!(r_idmi, "idmi", m_id);
harness_fn!(r_idms, "idms", m_id);
harness_fn!(r_idxxi, "idxxi", m_id);
harness_fn!(r_idmxi, "idmxi", m_id);
harness_fn!(r_idxmi, "idxmi", m_id);

pub fn fn_spec(name: &str) -> FnSpec {
    use Kind::*;
    let f = |name: &'static str,
             params: Vec<(Kind, Ty)>,
             opts: Vec<(Kind, V)>,
             ret: Ty,
             imp: fn(&[MArg]) -> Option<V>,
             real: for<'i, 'a> fn(FunctionArgs<'i, 'a>) -> Option<LhsValue<'a>>| FnSpec {
        name,
        params,
        opts,
        ret,
        imp,
        real: Some(real),
        special: None,
    };
    match name {
        "idb" => f("idb", vec![(Field, Ty::Bytes)], vec![], Ty::Bytes, m_idb, r_idb),
        "len" => f("len", vec![(Field, Ty::Bytes)], vec![], Ty::Int, m_len, r_len),
        "up" => f("up", vec![(Field, Ty::Bytes)], vec![], Ty::Bytes, m_up, r_up),
        "nie" => f("nie", vec![(Field, Ty::Bytes)], vec![], Ty::Bytes, m_nie, r_nie),
        "arr" => f("arr", vec![(Field, Ty::Bytes)], vec![], Ty::arr(Ty::Bytes), m_arr, r_arr),
        "opt" => f(
            "opt",
            vec![(Field, Ty::Bytes)],
            vec![(Both, V::Int(7)), (Both, V::Bytes(b"d".to_vec()))],
            Ty::Bytes,
            m_opt,
            r_opt,
        ),
        "lit" => f("lit", vec![(Field, Ty::Bytes), (Literal, Ty::Int)], vec![], Ty::Int, m_lit, r_lit),
        "both" => f("both", vec![(Both, Ty::Bytes)], vec![], Ty::Bytes, m_both, r_both),
        "sum" => f("sum", vec![(Field, Ty::arr(Ty::Int))], vec![], Ty::Int, m_sum, r_sum),
        "cat2" => f("cat2", vec![(Field, Ty::Bytes), (Both, Ty::Bytes)], vec![], Ty::Bytes, m_cat2, r_cat2),
        "pick" => f("pick", vec![(Field, Ty::Bytes), (Field, Ty::Bool)], vec![], Ty::Bytes, m_pick, r_pick),
        "cnt" => f("cnt", vec![(Field, Ty::arr(Ty::Bool))], vec![], Ty::Int, m_cnt, r_cnt),
        "inc" => f("inc", vec![(Both, Ty::Int)], vec![], Ty::Int, m_inc, r_inc),
        "isb" => f("isb", vec![(Field, Ty::Bool)], vec![], Ty::Bool, m_isb, r_isb),
        "nul" => f("nul", vec![], vec![], Ty::Bytes, m_nul, r_nul),
        "fb" => f("fb", vec![(Field, Ty::Bool)], vec![], Ty::Bool, m_id, r_fb),
        "fa" => f("fa", vec![(Field, Ty::arr(Ty::Bool))], vec![], Ty::arr(Ty::Bool), m_id, r_fa),
        "fade" => f("fade", vec![(Field, Ty::Bool)], vec![], Ty::Bool, m_id, r_fade),
        // identities on container types: a function result that is indexed like a field (C02)
        "idxi" => f("idxi", vec![(Field, Ty::arr(Ty::Int))], vec![], Ty::arr(Ty::Int), m_id, r_idxi),
        "idmi" => f("idmi", vec![(Field, Ty::map(Ty::Int))], vec![], Ty::map(Ty::Int), m_id, r_idmi),
        "idms" => f("idms", vec![(Field, Ty::map(Ty::Bytes))], vec![], Ty::map(Ty::Bytes), m_id, r_idms),
        "idxxi" => f("idxxi", vec![(Field, Ty::arr(Ty::arr(Ty::Int)))], vec![], Ty::arr(Ty::arr(Ty::Int)), m_id, r_idxxi),
        "idmxi" => f("idmxi", vec![(Field, Ty::map(Ty::arr(Ty::Int)))], vec![], Ty::map(Ty::arr(Ty::Int)), m_id, r_idmxi),
        "idxmi" => f("idxmi", vec![(Field, Ty::arr(Ty::map(Ty::Int)))], vec![], Ty::arr(Ty::map(Ty::Int)), m_id, r_idxmi),
        "racy" => f("racy", vec![(Field, Ty::Bytes)], vec![], Ty::Int, m_racy, r_racy),
        "concat" => FnSpec {
            name: "concat",
            params: vec![],
            opts: vec![],
            ret: Ty::Bytes,
            imp: m_idb,
            real: None,
            special: Some(Special::Concat),
        },
        "ctxfn" => FnSpec {
            name: "ctxfn",
            params: vec![],
            opts: vec![],
            ret: Ty::Bytes,
            imp: m_idb,
            real: None,
            special: Some(Special::CtxFn),
        },
        "boom" => FnSpec {
            name: "boom",
            params: vec![],
            opts: vec![],
            ret: Ty::Bool,
            imp: m_idb,
            real: None,
            special: Some(Special::Panicky),
        },
        other => panic!("unknown harness function {other}"),
    }
}

// ---- harness list: named sets ------------------------------------------------------

/// Matcher holding named sets of values; records every query.
#[derive(Clone, Debug, Default, PartialEq, Serialize, Deserialize)]
pub struct SetMatcher {
    pub sets: BTreeMap<String, BTreeSet<V>>,
}

thread_local! {
    pub static QUERY_LOG: RefCell<Option<Vec<(String, V)>>> = const { RefCell::new(None) };
}

pub fn qlog_start() {
    QUERY_LOG.with(|l| *l.borrow_mut() = Some(Vec::new()));
}
pub fn qlog_take() -> Vec<(String, V)> {
    QUERY_LOG.with(|l| l.borrow_mut().take().unwrap_or_default())
}

impl ListMatcher for SetMatcher {
    fn match_value(&self, list_name: &str, val: &LhsValue<'_>) -> bool {
        harness_yield("setlist.match_value");
        let v = V::from_engine(val);
        QUERY_LOG.with(|l| {
            if let Some(q) = l.borrow_mut().as_mut() {
                q.push((list_name.to_string(), v.clone()));
            }
        });
        self.sets.get(list_name).map(|s| s.contains(&v)).unwrap_or(false)
    }

    fn clear(&mut self) {
        self.sets.clear();
    }
}

#[derive(Debug, Default)]
pub struct SetList;

impl ListDefinition for SetList {
    fn deserialize_matcher<'de>(
        &self,
        _ty: Type,
        deserializer: &mut dyn erased_serde::Deserializer<'de>,
    ) -> Result<Box<dyn ListMatcher>, erased_serde::Error> {
        let m = erased_serde::deserialize::<SetMatcher>(deserializer)?;
        Ok(Box::new(m))
    }

    fn new_matcher(&self) -> Box<dyn ListMatcher> {
        Box::new(SetMatcher::default())
    }
}

#[derive(Clone, Copy, Debug, PartialEq, Eq)]
pub enum ListKind {
    Set,
    Always,
    Never,
}

// ---- universe ------------------------------------------------------------------------

#[derive(Clone)]
pub struct Uni {
    pub fields: Vec<(String, Ty, bool)>,
    pub funcs: Vec<FnSpec>,
    pub lists: Vec<(Ty, ListKind)>,
    pub nil_ne: bool,
}

fn to_kind(k: Kind) -> SimpleFunctionArgKind {
    match k {
        Kind::Field => SimpleFunctionArgKind::Field,
        Kind::Literal => SimpleFunctionArgKind::Literal,
        Kind::Both => SimpleFunctionArgKind::Both,
    }
}

impl Uni {
    pub fn new(fields: &[(&str, Ty, bool)], funcs: &[&str], nil_ne: bool) -> Uni {
        Uni {
            fields: fields.iter().map(|(n, t, o)| (n.to_string(), t.clone(), *o)).collect(),
            funcs: funcs.iter().map(|n| fn_spec(n)).collect(),
            lists: vec![],
            nil_ne,
        }
    }

    pub fn with_lists(mut self, lists: &[(Ty, ListKind)]) -> Uni {
        self.lists = lists.to_vec();
        self
    }

    pub fn field(&self, name: &str) -> Option<&(String, Ty, bool)> {
        self.fields.iter().find(|f| f.0 == name)
    }

    pub fn func(&self, name: &str) -> Option<&FnSpec> {
        self.funcs.iter().find(|f| f.name == name)
    }

    pub fn list_for(&self, ty: &Ty) -> Option<usize> {
        self.lists.iter().position(|(t, _)| t == ty)
    }

    pub fn builder(&self) -> SchemeBuilder {
        let mut b = SchemeBuilder::new();
        for (n, t, o) in &self.fields {
            if *o {
                b.add_optional_field(n, t.to_engine()).expect("field");
            } else {
                b.add_field(n, t.to_engine()).expect("field");
            }
        }
        for f in &self.funcs {
            match f.special {
                Some(Special::Concat) => {
                    b.add_function(f.name, wirefilter::ConcatFunction::new()).expect("fn")
                }
                Some(Special::CtxFn) => b.add_function(f.name, crate::ctxfn::CtxFn).expect("fn"),
                Some(Special::Panicky) => b.add_function(f.name, crate::ctxfn::Panicky).expect("fn"),
                None => b
                    .add_function(
                        f.name,
                        SimpleFunctionDefinition {
                            params: f
                                .params
                                .iter()
                                .map(|(k, t)| SimpleFunctionParam { arg_kind: to_kind(*k), val_type: t.to_engine() })
                                .collect(),
                            opt_params: f
                                .opts
                                .iter()
                                .map(|(k, v)| SimpleFunctionOptParam {
                                    arg_kind: to_kind(*k),
                                    default_value: v.to_engine(),
                                })
                                .collect(),
                            return_type: f.ret.to_engine(),
                            implementation: SimpleFunctionImpl::new(f.real.unwrap()),
                        },
                    )
                    .expect("fn"),
            }
        }
        for (t, k) in &self.lists {
            match k {
                ListKind::Set => b.add_list(t.to_engine(), SetList).expect("list"),
                ListKind::Always => b.add_list(t.to_engine(), wirefilter::AlwaysList {}).expect("list"),
                ListKind::Never => b.add_list(t.to_engine(), wirefilter::NeverList {}).expect("list"),
            }
        }
        b.set_nil_not_equal_behavior(self.nil_ne);
        b
    }

    pub fn build(&self) -> Scheme {
        self.builder().build()
    }
}

/// Model context: field name -> value (absent = not present).
pub type MCtx = BTreeMap<String, V>;

/// Builds a real context holding the model context's values.
pub fn real_ctx<'s>(scheme: &'s Scheme, m: &MCtx) -> ExecutionContext<'static> {
    let mut ctx = ExecutionContext::new(scheme);
    for (name, v) in m {
        let f = scheme.get_field(name).expect("model ctx field exists");
        ctx.set_field_value(f, v.to_engine()).expect("model ctx value well typed");
    }
    ctx
}

/// Model-side named sets per list type index.
pub type MLists = BTreeMap<usize, BTreeMap<String, BTreeSet<V>>>;

pub fn install_sets(scheme: &Scheme, ctx: &mut ExecutionContext<'_>, uni: &Uni, lists: &MLists) {
    for (idx, sets) in lists {
        let (ty, kind) = &uni.lists[*idx];
        if *kind != ListKind::Set {
            continue;
        }
        let list = scheme.get_list(&ty.to_engine()).expect("list registered");
        let m = ctx.get_list_matcher_mut(list);
        let any: &mut dyn std::any::Any = as_any_mut(m);
        let sm = any.downcast_mut::<SetMatcher>().expect("SetMatcher");
        sm.sets = sets.clone();
    }
}

fn as_any_mut(m: &mut dyn ListMatcher) -> &mut dyn std::any::Any {
    // `ListMatcher: AsAny` (blanket impl for every `Any` type); the trait itself is not
    // nameable from outside the crate but its methods are callable through the supertrait.
    m.as_any_mut()
}
