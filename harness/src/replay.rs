//! Plain re-execution of a recorded violation, without the explorer.

use crate::ast::{Expr, Lhs};
use crate::ev::{Run, Tier};
use crate::prog::{Bench, check_candidate, check_filter_text, check_value};
use crate::uni::MCtx;
use serde_json::Value;

/// Returns 1 if the violation reproduces, 0 if the case now passes, 2 on machinery trouble.
pub fn replay_file(path: &str) -> i32 {
    let text = match std::fs::read_to_string(path) {
        Ok(t) => t,
        Err(e) => {
            eprintln!("cannot read {path}: {e}");
            return 2;
        }
    };
    let doc: Value = match serde_json::from_str(&text) {
        Ok(v) => v,
        Err(e) => {
            eprintln!("bad replay file: {e}");
            return 2;
        }
    };
    let prop = doc["property"].as_str().unwrap_or("?").to_string();
    let case = &doc["case"];
    if case["kind"] == "process-crash" {
        // re-run the whole check in a child process: reproduced iff it dies the same way
        use std::os::unix::process::ExitStatusExt;
        let exe = std::env::current_exe().expect("exe");
        let scratch = std::env::temp_dir().join(format!("wfv-replay-{}", std::process::id()));
        let _ = std::fs::create_dir_all(&scratch);
        let st = std::process::Command::new(exe)
            .args(["check", &prop, "--tier", doc["tier"].as_str().unwrap_or("quick")])
            .env("WFV_INNER", "1")
            .env("WFV_QUIET", "1")
            .env("WFV_VERIF_DIR", &scratch)
            .env("VERIF_SEED", doc["seed"].as_u64().unwrap_or(0).to_string())
            .env_remove("VERIF_TIER")
            .status();
        let _ = std::fs::remove_dir_all(&scratch);
        return match st {
            Ok(st) if st.signal().map(|s| s as u64) == case["signal"].as_u64() => {
                println!("REPRODUCED property={prop} the checking process died again with signal {}", case["signal"]);
                1
            }
            Ok(st) => {
                println!("NOT-REPRODUCED property={prop}: the check ran to completion ({st})");
                0
            }
            Err(e) => {
                eprintln!("cannot replay: {e}");
                2
            }
        };
    }
    match replay_case(&prop, case) {
        Ok(n) if n > 0 => {
            println!("REPRODUCED property={prop} ({n} violation(s)) {}", doc["what"].as_str().unwrap_or(""));
            1
        }
        Ok(_) => {
            println!("NOT-REPRODUCED property={prop}: the recorded case passes on the current tree");
            0
        }
        Err(e) if e == "RE-EXEC-SCALAR" => {
            let exe = std::env::current_exe().expect("exe");
            let st = std::process::Command::new(exe)
                .args(["replay", path])
                .env("WIREFILTER_USE_AVX2", "0")
                .status()
                .expect("re-exec");
            st.code().unwrap_or(2)
        }
        Err(e) if e.starts_with("no replay handler") || e.starts_with("re-run") => fallback(&doc),
        Err(e) => {
            eprintln!("cannot replay: {e}");
            2
        }
    }
}

pub fn replay_case(prop: &str, case: &Value) -> Result<u64, String> {
    let kind = case["kind"].as_str().unwrap_or("");
    match kind {
        "filter" | "candidate" | "value" | "queries" => {
            let tag = case["universe"].as_str().ok_or("no universe")?;
            let uni = crate::unis::by_tag(tag).ok_or_else(|| format!("unknown universe {tag}"))?;
            let ctxs: Vec<MCtx> = match case.get("ctx") {
                Some(Value::Null) | None => vec![MCtx::new()],
                Some(c) => vec![serde_json::from_value(c.clone()).map_err(|e| e.to_string())?],
            };
            // contexts of mandatory universes need all fields: the recorded ctx is complete
            let lists = case["detail"].get("lists").and_then(|l| serde_json::from_value(l.clone()).ok());
            let b = Bench::with_lists(tag, uni, ctxs, lists);
            let run = Run::new("replay", "exploration", Tier::Quick, 0);
            if prop == "C04" {
                run.types_only.store(true, std::sync::atomic::Ordering::Relaxed);
            }
            match kind {
                "filter" => {
                    let e: Expr = serde_json::from_value(case["program"].clone()).map_err(|e| format!("re-run: the program tree is not stored in this file ({e})"))?;
                    let text = case["text"].as_str().ok_or("no text")?;
                    check_filter_text(&run, prop, &b, &e, text);
                }
                "queries" => {
                    let e: Expr = serde_json::from_value(case["program"].clone()).map_err(|e| format!("re-run: the program tree is not stored in this file ({e})"))?;
                    crate::checks::c17::check_queries(&run, &b, &e);
                }
                "candidate" => {
                    let e: Expr = serde_json::from_value(case["program"].clone()).map_err(|e| format!("re-run: the program tree is not stored in this file ({e})"))?;
                    check_candidate(&run, prop, &b, &e);
                }
                _ => {
                    let l: Lhs = serde_json::from_value(case["program"].clone()).map_err(|e| format!("re-run: the program tree is not stored in this file ({e})"))?;
                    check_value(&run, prop, &b, &l);
                }
            }
            Ok(run.violations_seen())
        }
        _ => crate::checks::replay(prop, case),
    }
}

/// Case kinds without a dedicated re-execution: run the property's check again (same tier and
/// seed) with its output redirected to a scratch directory, and report whether a violation with
/// the recorded key shows up again.
fn fallback(doc: &Value) -> i32 {
    let prop = doc["property"].as_str().unwrap_or("").to_string();
    let key = doc["key"].as_str().unwrap_or("").to_string();
    let tier = if doc["tier"] == "thorough" { Tier::Thorough } else { Tier::Quick };
    let seed = doc["seed"].as_u64().unwrap_or(0);
    let scratch = std::env::temp_dir().join(format!("wfv-replay-{}", std::process::id()));
    let _ = std::fs::create_dir_all(&scratch);
    // known findings must not hide the case being replayed: the scratch directory has none
    unsafe {
        std::env::set_var("WFV_VERIF_DIR", &scratch);
        std::env::set_var("WFV_WANT_KEY", &key);
        std::env::set_var("WFV_QUIET", "1");
    }
    eprintln!("(no dedicated replay for this case kind: re-running check {prop} ({}) and looking for the same violation key)", tier.name());
    let _ = crate::checks::run(&prop, tier, seed);
    let mut found = false;
    if let Ok(rd) = std::fs::read_dir(scratch.join("replays").join(&prop)) {
        for e in rd.flatten() {
            if let Ok(t) = std::fs::read_to_string(e.path()) {
                if let Ok(v) = serde_json::from_str::<Value>(&t) {
                    if v["key"].as_str() == Some(key.as_str()) {
                        found = true;
                    }
                }
            }
        }
    }
    let _ = std::fs::remove_dir_all(&scratch);
    if found {
        println!("REPRODUCED property={prop} key={key}");
        1
    } else {
        println!("NOT-REPRODUCED property={prop}: no violation with key {key:?} on the current tree");
        0
    }
}
