//! Reference mini-AST of the filter language: the *structure* of a filter, from
//! which source text (under a spelling), static type, value, canonical JSON,
//! identifier usage and nesting depth are derived independently of the engine.

use crate::val::{Ty, V};
use serde::{Deserialize, Serialize};
use std::net::IpAddr;

#[derive(Clone, Debug, PartialEq, Eq, Hash, PartialOrd, Ord, Serialize, Deserialize)]
pub enum Idx {
    N(u32),
    K(String),
    Each,
}

#[derive(Clone, Copy, Debug, PartialEq, Eq, Hash, PartialOrd, Ord, Serialize, Deserialize)]
pub enum IntForm {
    Dec,
    Hex,
    HexUpper,
    Oct,
}

#[derive(Clone, Copy, Debug, PartialEq, Eq, Hash, PartialOrd, Ord, Serialize, Deserialize)]
pub enum BytesForm {
    Quoted,
    /// raw string with this many `#`
    Raw(u8),
    /// hex pairs with this separator (`:`, `-` or `.`); needs >= 2 bytes
    Hex(char),
}

#[derive(Clone, Debug, PartialEq, Eq, Hash, PartialOrd, Ord, Serialize, Deserialize)]
pub enum Lit {
    Int(i64, IntForm),
    Bytes(Vec<u8>, BytesForm),
    Ip(IpAddr),
}

impl Lit {
    pub fn int(i: i64) -> Lit {
        Lit::Int(i, IntForm::Dec)
    }
    pub fn str(s: &[u8]) -> Lit {
        Lit::Bytes(s.to_vec(), BytesForm::Quoted)
    }
    pub fn ty(&self) -> Ty {
        match self {
            Lit::Int(..) => Ty::Int,
            Lit::Bytes(..) => Ty::Bytes,
            Lit::Ip(..) => Ty::Ip,
        }
    }
    pub fn value(&self) -> V {
        match self {
            Lit::Int(i, _) => V::Int(*i),
            Lit::Bytes(b, _) => V::Bytes(b.clone()),
            Lit::Ip(ip) => V::Ip(*ip),
        }
    }
}

#[derive(Clone, Debug, PartialEq, Eq, Hash, PartialOrd, Ord, Serialize, Deserialize)]
pub enum IpItem {
    Addr(IpAddr),
    /// network address, prefix length
    Cidr(IpAddr, u8),
    Range(IpAddr, IpAddr),
}

#[derive(Clone, Debug, PartialEq, Eq, Hash, PartialOrd, Ord, Serialize, Deserialize)]
pub struct IntItem {
    pub lo: i64,
    /// `Some(hi)` renders `lo..hi`
    pub hi: Option<i64>,
}

#[derive(Clone, Debug, PartialEq, Eq, Hash, PartialOrd, Ord, Serialize, Deserialize)]
pub enum Rhs {
    Lit(Lit),
    IntSet(Vec<IntItem>),
    IpSet(Vec<IpItem>),
    BytesSet(Vec<(Vec<u8>, BytesForm)>),
    /// pattern text as the regex engine must see it; quoted or raw form
    Regex(String, BytesForm),
    List(String),
}

#[derive(Clone, Copy, Debug, PartialEq, Eq, Hash, PartialOrd, Ord, Serialize, Deserialize)]
pub enum CmpOp {
    Eq,
    Ne,
    Ge,
    Le,
    Gt,
    Lt,
    BitAnd,
    Contains,
    Matches,
    Wildcard,
    StrictWildcard,
    In,
    InList,
}

pub const ORDERING_OPS: [CmpOp; 6] = [CmpOp::Eq, CmpOp::Ne, CmpOp::Ge, CmpOp::Le, CmpOp::Gt, CmpOp::Lt];

#[derive(Clone, Copy, Debug, PartialEq, Eq, Hash, PartialOrd, Ord, Serialize, Deserialize)]
pub enum LOp {
    Or,
    Xor,
    And,
}

#[derive(Clone, Copy, Debug, PartialEq, Eq, Hash, PartialOrd, Ord, Serialize, Deserialize)]
pub enum QOp {
    Any,
    All,
}

#[derive(Clone, Debug, PartialEq, Eq, Hash, PartialOrd, Ord, Serialize, Deserialize)]
pub enum Ident {
    Field(String),
    Call(String, Vec<Arg>),
}

#[derive(Clone, Debug, PartialEq, Eq, Hash, PartialOrd, Ord, Serialize, Deserialize)]
pub struct Lhs {
    pub id: Ident,
    pub path: Vec<Idx>,
}

impl Lhs {
    pub fn field(name: &str) -> Lhs {
        Lhs { id: Ident::Field(name.to_string()), path: vec![] }
    }
    pub fn fieldp(name: &str, path: Vec<Idx>) -> Lhs {
        Lhs { id: Ident::Field(name.to_string()), path }
    }
    pub fn call(name: &str, args: Vec<Arg>) -> Lhs {
        Lhs { id: Ident::Call(name.to_string(), args), path: vec![] }
    }
    pub fn callp(name: &str, args: Vec<Arg>, path: Vec<Idx>) -> Lhs {
        Lhs { id: Ident::Call(name.to_string(), args), path }
    }
    pub fn each_count(&self) -> usize {
        self.path.iter().filter(|i| **i == Idx::Each).count()
    }
}

#[derive(Clone, Debug, PartialEq, Eq, Hash, PartialOrd, Ord, Serialize, Deserialize)]
pub enum Arg {
    Lhs(Lhs),
    Lit(Lit),
    Logical(Expr),
}

#[derive(Clone, Debug, PartialEq, Eq, Hash, PartialOrd, Ord, Serialize, Deserialize)]
pub enum QArg {
    Lhs(Lhs),
    Logical(Expr),
}

#[derive(Clone, Debug, PartialEq, Eq, Hash, PartialOrd, Ord, Serialize, Deserialize)]
pub enum Expr {
    Cmp { lhs: Lhs, op: CmpOp, rhs: Rhs },
    IsTrue(Lhs),
    Not(Box<Expr>),
    Paren(Box<Expr>),
    /// canonical form: >= 2 items; an item that is itself a `Chain` has a
    /// strictly higher-precedence operator (anything else needs `Paren`).
    Chain(LOp, Vec<Expr>),
    Quant(QOp, Box<QArg>),
}

impl Expr {
    pub fn cmp(lhs: Lhs, op: CmpOp, rhs: Rhs) -> Expr {
        Expr::Cmp { lhs, op, rhs }
    }
    pub fn not(e: Expr) -> Expr {
        Expr::Not(Box::new(e))
    }
    pub fn paren(e: Expr) -> Expr {
        Expr::Paren(Box::new(e))
    }
    pub fn any(a: QArg) -> Expr {
        Expr::Quant(QOp::Any, Box::new(a))
    }
    pub fn all(a: QArg) -> Expr {
        Expr::Quant(QOp::All, Box::new(a))
    }
    /// Is the chain structure canonical (renderable without extra parentheses)?
    pub fn canonical(&self) -> bool {
        match self {
            Expr::Cmp { lhs, .. } | Expr::IsTrue(lhs) => lhs_canonical(lhs),
            Expr::Not(e) => !matches!(**e, Expr::Chain(..)) && e.canonical(),
            Expr::Paren(e) => e.canonical(),
            Expr::Chain(op, items) => {
                items.len() >= 2
                    && items.iter().all(|i| match i {
                        Expr::Chain(o2, _) => o2 > op && i.canonical(),
                        _ => i.canonical(),
                    })
            }
            Expr::Quant(_, a) => match &**a {
                QArg::Lhs(l) => lhs_canonical(l),
                QArg::Logical(e) => e.canonical() && arg_form_ok(e),
            },
        }
    }
}

fn lhs_canonical(l: &Lhs) -> bool {
    match &l.id {
        Ident::Field(_) => true,
        Ident::Call(_, args) => args.iter().all(|a| match a {
            Arg::Lhs(l) => lhs_canonical(l),
            Arg::Lit(_) => true,
            Arg::Logical(e) => e.canonical() && arg_form_ok(e),
        }),
    }
}

/// In argument position (call or quantifier) an unparenthesised logical
/// expression is only recognised when it starts with `(`, `not`/`!`,
/// `any(`/`all(`, or is a single comparison with an explicit operator.
pub fn arg_form_ok(e: &Expr) -> bool {
    match e {
        Expr::Cmp { .. } => true,
        Expr::IsTrue(_) => false,
        Expr::Not(_) | Expr::Paren(_) | Expr::Quant(..) => true,
        Expr::Chain(_, items) => first_leaf_form_ok(&items[0]),
    }
}

fn first_leaf_form_ok(e: &Expr) -> bool {
    match e {
        Expr::Not(_) | Expr::Paren(_) | Expr::Quant(..) => true,
        Expr::Chain(_, items) => first_leaf_form_ok(&items[0]),
        _ => false,
    }
}

// ---------------------------------------------------------------------------
// Rendering

#[derive(Clone, Copy, Debug, PartialEq, Eq, Hash, PartialOrd, Ord)]
pub enum OpKind {
    And,
    Or,
    Xor,
    Not,
    Eq,
    Ne,
    Ge,
    Le,
    Gt,
    Lt,
    Matches,
    BitAnd,
}

impl OpKind {
    pub fn aliases(self) -> [&'static str; 2] {
        match self {
            OpKind::And => ["and", "&&"],
            OpKind::Or => ["or", "||"],
            OpKind::Xor => ["xor", "^^"],
            OpKind::Not => ["not", "!"],
            OpKind::Eq => ["eq", "=="],
            OpKind::Ne => ["ne", "!="],
            OpKind::Ge => ["ge", ">="],
            OpKind::Le => ["le", "<="],
            OpKind::Gt => ["gt", ">"],
            OpKind::Lt => ["lt", "<"],
            OpKind::Matches => ["matches", "~"],
            OpKind::BitAnd => ["bitwise_and", "&"],
        }
    }
    /// default alias index: words for logical operators, symbols for comparisons
    pub fn default_alias(self) -> usize {
        match self {
            OpKind::And | OpKind::Or | OpKind::Xor | OpKind::Not | OpKind::Matches => 0,
            _ => 1,
        }
    }
}

#[derive(Clone, Debug, PartialEq, Eq)]
pub enum Tok {
    /// literal text
    S(String),
    /// an operator with aliases
    Op(OpKind),
    /// a word (must be separated from adjacent word characters by whitespace)
    W(&'static str),
    /// a position where whitespace may occur
    Gap,
    /// a position where whitespace is required
    GapReq,
}

pub fn render_int(i: i64, form: IntForm) -> String {
    match form {
        IntForm::Dec => format!("{i}"),
        IntForm::Hex => format!("0x{i:x}"),
        IntForm::HexUpper => format!("0x{i:X}"),
        IntForm::Oct => format!("0{i:o}"),
    }
}

pub fn render_quoted(b: &[u8]) -> String {
    let mut s = String::from("\"");
    // valid UTF-8 printable ASCII literally; everything else as \xHH
    for &c in b {
        match c {
            b'"' => s.push_str("\\\""),
            b'\\' => s.push_str("\\\\"),
            0x20..=0x7e => s.push(c as char),
            _ => s.push_str(&format!("\\x{c:02x}")),
        }
    }
    s.push('"');
    s
}

/// Raw form; the caller guarantees the bytes are UTF-8 and contain no `"`
/// followed by `n` or more `#`.
pub fn render_raw(b: &[u8], n: u8) -> String {
    let h = "#".repeat(n as usize);
    format!("r{h}\"{}\"{h}", std::str::from_utf8(b).expect("raw form needs utf-8"))
}

pub fn raw_form_ok(b: &[u8], n: u8) -> bool {
    if std::str::from_utf8(b).is_err() {
        return false;
    }
    let n = n as usize;
    for (i, &c) in b.iter().enumerate() {
        if c == b'"' {
            let run = b[i + 1..].iter().take_while(|&&x| x == b'#').count();
            if run >= n {
                return false;
            }
        }
    }
    true
}

pub fn render_hex(b: &[u8], sep: char) -> String {
    b.iter().map(|c| format!("{c:02x}")).collect::<Vec<_>>().join(&sep.to_string())
}

pub fn render_bytes(b: &[u8], form: BytesForm) -> String {
    match form {
        BytesForm::Quoted => render_quoted(b),
        BytesForm::Raw(n) => render_raw(b, n),
        BytesForm::Hex(sep) => render_hex(b, sep),
    }
}

pub fn render_lit(l: &Lit) -> String {
    match l {
        Lit::Int(i, f) => render_int(*i, *f),
        Lit::Bytes(b, f) => render_bytes(b, *f),
        Lit::Ip(ip) => format!("{ip}"),
    }
}

/// Quoted regex: `"` outside a character class is written `\"`; inside a class
/// it is written as is. Other characters verbatim.
pub fn render_regex_quoted(pat: &str) -> String {
    let mut out = String::from("\"");
    let mut in_class = false;
    let mut chars = pat.chars();
    while let Some(c) = chars.next() {
        match c {
            '\\' => {
                out.push('\\');
                if let Some(n) = chars.next() {
                    out.push(n);
                }
            }
            '"' if !in_class => out.push_str("\\\""),
            '[' if !in_class => {
                in_class = true;
                out.push('[');
            }
            ']' if in_class => {
                in_class = false;
                out.push(']');
            }
            c => out.push(c),
        }
    }
    out.push('"');
    out
}

fn s(t: impl Into<String>) -> Tok {
    Tok::S(t.into())
}

pub fn toks_lhs(l: &Lhs, out: &mut Vec<Tok>) {
    match &l.id {
        Ident::Field(n) => out.push(s(n.clone())),
        Ident::Call(n, args) => {
            out.push(s(n.clone()));
            out.push(Tok::Gap);
            out.push(s("("));
            out.push(Tok::Gap);
            for (i, a) in args.iter().enumerate() {
                if i > 0 {
                    out.push(s(","));
                    out.push(Tok::Gap);
                }
                match a {
                    Arg::Lhs(l) => toks_lhs(l, out),
                    Arg::Lit(l) => out.push(s(render_lit(l))),
                    Arg::Logical(e) => toks_expr(e, out),
                }
                out.push(Tok::Gap);
            }
            out.push(s(")"));
        }
    }
    for i in &l.path {
        out.push(s("["));
        out.push(Tok::Gap);
        match i {
            Idx::N(n) => out.push(s(format!("{n}"))),
            Idx::K(k) => out.push(s(render_quoted(k.as_bytes()))),
            Idx::Each => out.push(s("*")),
        }
        out.push(Tok::Gap);
        out.push(s("]"));
    }
}

pub fn toks_expr(e: &Expr, out: &mut Vec<Tok>) {
    match e {
        Expr::IsTrue(l) => toks_lhs(l, out),
        Expr::Cmp { lhs, op, rhs } => {
            toks_lhs(lhs, out);
            out.push(Tok::Gap);
            match op {
                CmpOp::Eq => out.push(Tok::Op(OpKind::Eq)),
                CmpOp::Ne => out.push(Tok::Op(OpKind::Ne)),
                CmpOp::Ge => out.push(Tok::Op(OpKind::Ge)),
                CmpOp::Le => out.push(Tok::Op(OpKind::Le)),
                CmpOp::Gt => out.push(Tok::Op(OpKind::Gt)),
                CmpOp::Lt => out.push(Tok::Op(OpKind::Lt)),
                CmpOp::BitAnd => out.push(Tok::Op(OpKind::BitAnd)),
                CmpOp::Matches => out.push(Tok::Op(OpKind::Matches)),
                CmpOp::Contains => out.push(Tok::W("contains")),
                CmpOp::Wildcard => out.push(Tok::W("wildcard")),
                CmpOp::StrictWildcard => out.push(Tok::W("strict wildcard")),
                CmpOp::In | CmpOp::InList => out.push(Tok::W("in")),
            }
            out.push(Tok::Gap);
            match rhs {
                Rhs::Lit(l) => out.push(s(render_lit(l))),
                Rhs::Regex(p, BytesForm::Raw(n)) => out.push(s(render_raw(p.as_bytes(), *n))),
                Rhs::Regex(p, _) => out.push(s(render_regex_quoted(p))),
                Rhs::List(n) => out.push(s(format!("${n}"))),
                Rhs::IntSet(items) => {
                    out.push(s("{"));
                    out.push(Tok::Gap);
                    for (i, it) in items.iter().enumerate() {
                        if i > 0 {
                            out.push(Tok::GapReq);
                        }
                        match it.hi {
                            None => out.push(s(format!("{}", it.lo))),
                            Some(hi) => out.push(s(format!("{}..{}", it.lo, hi))),
                        }
                    }
                    out.push(Tok::Gap);
                    out.push(s("}"));
                }
                Rhs::IpSet(items) => {
                    out.push(s("{"));
                    out.push(Tok::Gap);
                    for (i, it) in items.iter().enumerate() {
                        if i > 0 {
                            out.push(Tok::GapReq);
                        }
                        out.push(s(render_ip_item(it)));
                    }
                    out.push(Tok::Gap);
                    out.push(s("}"));
                }
                Rhs::BytesSet(items) => {
                    out.push(s("{"));
                    out.push(Tok::Gap);
                    for (i, (b, f)) in items.iter().enumerate() {
                        if i > 0 {
                            out.push(Tok::GapReq);
                        }
                        out.push(s(render_bytes(b, *f)));
                    }
                    out.push(Tok::Gap);
                    out.push(s("}"));
                }
            }
        }
        Expr::Not(e) => {
            out.push(Tok::Op(OpKind::Not));
            out.push(Tok::Gap);
            toks_expr(e, out);
        }
        Expr::Paren(e) => {
            out.push(s("("));
            out.push(Tok::Gap);
            toks_expr(e, out);
            out.push(Tok::Gap);
            out.push(s(")"));
        }
        Expr::Chain(op, items) => {
            let k = match op {
                LOp::And => OpKind::And,
                LOp::Or => OpKind::Or,
                LOp::Xor => OpKind::Xor,
            };
            for (i, it) in items.iter().enumerate() {
                if i > 0 {
                    out.push(Tok::Gap);
                    out.push(Tok::Op(k));
                    out.push(Tok::Gap);
                }
                toks_expr(it, out);
            }
        }
        Expr::Quant(q, a) => {
            out.push(s(match q {
                QOp::Any => "any",
                QOp::All => "all",
            }));
            out.push(Tok::Gap);
            out.push(s("("));
            out.push(Tok::Gap);
            match &**a {
                QArg::Lhs(l) => toks_lhs(l, out),
                QArg::Logical(e) => toks_expr(e, out),
            }
            out.push(Tok::Gap);
            out.push(s(")"));
        }
    }
}

pub fn render_ip_item(it: &IpItem) -> String {
    match it {
        IpItem::Addr(a) => format!("{a}"),
        IpItem::Cidr(a, p) => format!("{a}/{p}"),
        IpItem::Range(a, b) => format!("{a}..{b}"),
    }
}

fn is_wordish(sx: &str) -> bool {
    sx.chars().next().map(|c| c.is_ascii_alphanumeric() || c == '_').unwrap_or(false)
}

fn ends_wordish(sx: &str) -> bool {
    sx.chars().last().map(|c| c.is_ascii_alphanumeric() || c == '_').unwrap_or(false)
}

/// A spelling: alias index per operator occurrence (in token order) and
/// whitespace per gap occurrence (in token order). Missing entries default.
#[derive(Clone, Debug, Default)]
pub struct Spelling {
    pub aliases: Vec<usize>,
    /// whitespace for gap k; `None` = minimal (empty if allowed, else one space)
    pub gaps: Vec<Option<String>>,
    /// whitespace used for every gap not listed in `gaps`; `None` = minimal
    pub all_gaps: Option<String>,
    /// if true, operators use the alias given by `all_alias` unless listed
    pub all_alias: Option<usize>,
}

/// Joins tokens. A gap adjacent to two "wordish" ends gets at least one space.
pub fn spell(toks: &[Tok], sp: &Spelling) -> String {
    // resolve operator texts first
    let mut texts: Vec<Option<String>> = Vec::with_capacity(toks.len());
    let mut opi = 0;
    for t in toks {
        texts.push(match t {
            Tok::S(x) => Some(x.clone()),
            Tok::W(x) => Some((*x).to_string()),
            Tok::Op(k) => {
                let a = sp
                    .aliases
                    .get(opi)
                    .copied()
                    .or(sp.all_alias)
                    .unwrap_or_else(|| k.default_alias());
                opi += 1;
                Some(k.aliases()[a].to_string())
            }
            Tok::Gap | Tok::GapReq => None,
        });
    }
    let mut out = String::new();
    let mut gi = 0;
    for (i, t) in toks.iter().enumerate() {
        match t {
            Tok::Gap | Tok::GapReq => {
                let prev = texts[..i].iter().rev().flatten().next().map(|x| x.as_str()).unwrap_or("");
                let next = texts[i + 1..].iter().flatten().next().map(|x| x.as_str()).unwrap_or("");
                let required = *t == Tok::GapReq || (ends_wordish(prev) && is_wordish(next));
                let ws = sp.gaps.get(gi).cloned().flatten().or_else(|| sp.all_gaps.clone());
                gi += 1;
                match ws {
                    Some(w) if !w.is_empty() => out.push_str(&w),
                    _ => {
                        if required {
                            out.push(' ');
                        }
                    }
                }
            }
            _ => out.push_str(texts[i].as_ref().unwrap()),
        }
    }
    out
}

pub fn count_ops_gaps(toks: &[Tok]) -> (usize, usize) {
    let ops = toks.iter().filter(|t| matches!(t, Tok::Op(_))).count();
    let gaps = toks.iter().filter(|t| matches!(t, Tok::Gap | Tok::GapReq)).count();
    (ops, gaps)
}

/// Default readable rendering: single spaces around binary operators, minimal elsewhere.
pub fn render(e: &Expr) -> String {
    let mut toks = Vec::new();
    toks_expr(e, &mut toks);
    spell(&toks, &readable_spelling(&toks))
}

pub fn render_value(l: &Lhs) -> String {
    let mut toks = Vec::new();
    toks_lhs(l, &mut toks);
    spell(&toks, &Spelling::default())
}

/// single space around operators and after commas, nothing elsewhere
pub fn readable_spelling(toks: &[Tok]) -> Spelling {
    let mut gaps = Vec::new();
    for (i, t) in toks.iter().enumerate() {
        if matches!(t, Tok::Gap | Tok::GapReq) {
            let prev_op = i > 0 && matches!(toks[i - 1], Tok::Op(_) | Tok::W(_));
            let next_op = i + 1 < toks.len() && matches!(toks[i + 1], Tok::Op(_) | Tok::W(_));
            let prev_comma = i > 0 && toks[i - 1] == Tok::S(",".into());
            let prev_not = i > 0 && toks[i - 1] == Tok::Op(OpKind::Not);
            if (prev_op || next_op || prev_comma) && !prev_not {
                gaps.push(Some(" ".to_string()));
            } else {
                gaps.push(None);
            }
        }
    }
    Spelling { gaps, ..Default::default() }
}

// ---------------------------------------------------------------------------
// Occurrences and nesting

pub fn fields_of_lhs(l: &Lhs, out: &mut Vec<String>) {
    match &l.id {
        Ident::Field(n) => out.push(n.clone()),
        Ident::Call(_, args) => {
            for a in args {
                match a {
                    Arg::Lhs(l) => fields_of_lhs(l, out),
                    Arg::Lit(_) => {}
                    Arg::Logical(e) => fields_of(e, out),
                }
            }
        }
    }
}

/// every field identifier occurrence
pub fn fields_of(e: &Expr, out: &mut Vec<String>) {
    match e {
        Expr::Cmp { lhs, .. } | Expr::IsTrue(lhs) => fields_of_lhs(lhs, out),
        Expr::Not(e) | Expr::Paren(e) => fields_of(e, out),
        Expr::Chain(_, items) => items.iter().for_each(|i| fields_of(i, out)),
        Expr::Quant(_, a) => match &**a {
            QArg::Lhs(l) => fields_of_lhs(l, out),
            QArg::Logical(e) => fields_of(e, out),
        },
    }
}

fn list_fields_of_lhs(l: &Lhs, out: &mut Vec<String>) {
    if let Ident::Call(_, args) = &l.id {
        for a in args {
            match a {
                Arg::Lhs(l) => list_fields_of_lhs(l, out),
                Arg::Lit(_) => {}
                Arg::Logical(e) => list_fields_of(e, out),
            }
        }
    }
}

/// field occurrences inside the left-hand side of some `in $list`
pub fn list_fields_of(e: &Expr, out: &mut Vec<String>) {
    match e {
        Expr::Cmp { lhs, op: CmpOp::InList, .. } => fields_of_lhs(lhs, out),
        Expr::Cmp { lhs, .. } | Expr::IsTrue(lhs) => list_fields_of_lhs(lhs, out),
        Expr::Not(e) | Expr::Paren(e) => list_fields_of(e, out),
        Expr::Chain(_, items) => items.iter().for_each(|i| list_fields_of(i, out)),
        Expr::Quant(_, a) => match &**a {
            QArg::Lhs(l) => list_fields_of_lhs(l, out),
            QArg::Logical(e) => list_fields_of(e, out),
        },
    }
}

pub fn depth_lhs(l: &Lhs) -> usize {
    match &l.id {
        Ident::Field(_) => 0,
        Ident::Call(_, args) => {
            1 + args
                .iter()
                .map(|a| match a {
                    Arg::Lhs(l) => depth_lhs(l),
                    Arg::Lit(_) => 0,
                    Arg::Logical(e) => depth(e),
                })
                .max()
                .unwrap_or(0)
        }
    }
}

/// nesting depth: parentheses + nots + quantifiers + call argument lists on the deepest path
pub fn depth(e: &Expr) -> usize {
    match e {
        Expr::Cmp { lhs, .. } | Expr::IsTrue(lhs) => depth_lhs(lhs),
        Expr::Not(e) | Expr::Paren(e) => 1 + depth(e),
        Expr::Chain(_, items) => items.iter().map(depth).max().unwrap_or(0),
        Expr::Quant(_, a) => {
            1 + match &**a {
                QArg::Lhs(l) => depth_lhs(l),
                QArg::Logical(e) => depth(e),
            }
        }
    }
}

pub fn size(e: &Expr) -> usize {
    match e {
        Expr::Cmp { .. } | Expr::IsTrue(_) => 1,
        Expr::Not(e) | Expr::Paren(e) => 1 + size(e),
        Expr::Chain(_, items) => items.iter().map(size).sum::<usize>() + items.len() - 1,
        Expr::Quant(_, a) => {
            1 + match &**a {
                QArg::Lhs(_) => 1,
                QArg::Logical(e) => size(e),
            }
        }
    }
}
