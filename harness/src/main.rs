//! wfv — bounded exhaustive exploration of cloudflare/wirefilter against reference models.
//!
//!   wfv check <ID> [--tier quick|thorough]
//!   wfv replay <file>
//!   wfv worker <kind> [args...]      (subprocess entry points used by some checks)

mod ast;
mod checks;
mod corpus;
mod ctxfn;
mod ev;
mod lexref;
mod prog;
mod replay;
mod rx;
mod sched;
mod sem;
mod uni;
mod unis;
mod val;

use ev::Tier;

fn main() {
    let args: Vec<String> = std::env::args().collect();
    let code = match args.get(1).map(|s| s.as_str()) {
        Some("check") => {
            let id = args.get(2).cloned().unwrap_or_default();
            let mut tier = Tier::Quick;
            let mut i = 3;
            while i < args.len() {
                if args[i] == "--tier" {
                    if args.get(i + 1).map(|s| s.as_str()) == Some("thorough") {
                        tier = Tier::Thorough;
                    }
                    i += 1;
                }
                i += 1;
            }
            if let Ok(t) = std::env::var("VERIF_TIER") {
                match t.as_str() {
                    "thorough" => tier = Tier::Thorough,
                    "quick" => tier = Tier::Quick,
                    _ => {}
                }
            }
            let seed = std::env::var("VERIF_SEED").ok().and_then(|s| s.parse::<u64>().ok()).unwrap_or(0);
            if std::env::var("WFV_INNER").is_err() && std::env::var("WFV_NO_SUPERVISOR").is_err() {
                std::process::exit(supervise(&id, tier, seed, &args[1..]));
            }
            if std::env::var("WFV_INNER").is_ok() {
                // do not outlive the supervisor
                unsafe {
                    libc::prctl(libc::PR_SET_PDEATHSIG, libc::SIGKILL);
                }
            }
            ev::quiet_panics();
            match checks::run(&id, tier, seed) {
                Some(c) => c,
                None => {
                    eprintln!("unknown property id {id:?}");
                    2
                }
            }
        }
        Some("replay") => {
            ev::quiet_panics();
            match args.get(2) {
                Some(p) => replay::replay_file(p),
                None => {
                    eprintln!("usage: wfv replay <file>");
                    2
                }
            }
        }
        Some("worker") => checks::worker(&args[2..]),
        _ => {
            eprintln!("usage: wfv check <ID> [--tier quick|thorough] | wfv replay <file>");
            2
        }
    };
    std::process::exit(code);
}

/// Runs the check in a child process so that a crash of the process while it drives
/// cloudflare/wirefilter (stack overflow, a panic crossing an `extern "C"` boundary, a panic while
/// panicking, an explicit abort) is reported as what it is - the code under test crashing on an
/// in-bounds input - instead of as a failure of the machinery. Anything else is passed through.
fn supervise(id: &str, tier: Tier, seed: u64, args: &[String]) -> i32 {
    use std::os::unix::process::ExitStatusExt;
    let exe = std::env::current_exe().expect("exe");
    let st = match std::process::Command::new(exe).args(args).env("WFV_INNER", "1").status() {
        Ok(st) => st,
        Err(e) => {
            eprintln!("MACHINERY-FAILURE: cannot start the checking process: {e}");
            return 2;
        }
    };
    if let Some(c) = st.code() {
        return c;
    }
    let sig = st.signal().unwrap_or(0);
    // SIGILL 4, SIGABRT 6, SIGBUS 7, SIGFPE 8, SIGSEGV 11: raised by the process itself
    if ![4, 6, 7, 8, 11].contains(&sig) {
        eprintln!("MACHINERY-FAILURE: the checking process was killed by signal {sig} (not raised by the code under test)");
        return 2;
    }
    let key = format!("{id}:process-crash:signal={sig}");
    let what = format!(
        "the process died with signal {sig} while check {id} was driving cloudflare/wirefilter (a stack overflow, a panic that crossed an extern \"C\" boundary, a panic while panicking or an explicit abort): no property is met by crashing; see the lines printed just above for the runtime's own message"
    );
    if ev::load_known_findings(id).iter().any(|k| k == &key) {
        println!("KNOWN-FINDING: property={id} {key} ({what})");
        return 0;
    }
    let dir = ev::verif_dir().join("replays").join(id);
    let _ = std::fs::create_dir_all(&dir);
    let path = dir.join(format!("{}_{}_crash.json", tier.name(), seed));
    let doc = serde_json::json!({
        "property": id, "tier": tier.name(), "seed": seed, "key": key, "what": what,
        "case": {"kind": "process-crash", "signal": sig},
        "replay": format!("./run.sh replay {}", path.display()),
    });
    let _ = std::fs::write(&path, serde_json::to_string_pretty(&doc).unwrap());
    println!("VIOLATION property={id} replay={}", path.display());
    eprintln!("  -> {key}: {what}");
    1
}
