//! wfv — bounded exhaustive exploration of cloudflare/wirefilter against reference models.
//!
//!   wfv check <ID> [--tier quick|thorough]
//!   wfv replay <file>
//!   wfv worker <kind> [args...]      (subprocess entry points used by some checks)

mod ast;
mod checks;
mod corpus;
mod ctxfn;
mod ev;
mod lexref;
mod prog;
mod replay;
mod rx;
mod sched;
mod sem;
mod uni;
mod unis;
mod val;

use ev::Tier;

fn main() {
    let args: Vec<String> = std::env::args().collect();
    let code = match args.get(1).map(|s| s.as_str()) {
        Some("check") => {
            let id = args.get(2).cloned().unwrap_or_default();
            let mut tier = Tier::Quick;
            let mut i = 3;
            while i < args.len() {
                if args[i] == "--tier" {
                    if args.get(i + 1).map(|s| s.as_str()) == Some("thorough") {
                        tier = Tier::Thorough;
                    }
                    i += 1;
                }
                i += 1;
            }
            if let Ok(t) = std::env::var("VERIF_TIER") {
                match t.as_str() {
                    "thorough" => tier = Tier::Thorough,
                    "quick" => tier = Tier::Quick,
                    _ => {}
                }
            }
            let seed = std::env::var("VERIF_SEED").ok().and_then(|s| s.parse::<u64>().ok()).unwrap_or(0);
            ev::quiet_panics();
            match checks::run(&id, tier, seed) {
                Some(c) => c,
                None => {
                    eprintln!("unknown property id {id:?}");
                    2
                }
            }
        }
        Some("replay") => {
            ev::quiet_panics();
            match args.get(2) {
                Some(p) => replay::replay_file(p),
                None => {
                    eprintln!("usage: wfv replay <file>");
                    2
                }
            }
        }
        Some("worker") => checks::worker(&args[2..]),
        _ => {
            eprintln!("usage: wfv check <ID> [--tier quick|thorough] | wfv replay <file>");
            2
        }
    };
    std::process::exit(code);
}
