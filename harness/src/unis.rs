//! The fixed small universes used by the checks, addressable by tag (for replay).

use crate::uni::{ListKind, Uni};
use crate::val::Ty;

fn flag(tag: &str, name: &str) -> bool {
    tag.split(':').any(|p| p == format!("{name}=1"))
}

/// Scalar universe: `i:Int s:Bytes ip:Ip t,u,v,w,x,y:Bool` (C01).
pub fn scalar(optional: bool, nil_ne: bool) -> (String, Uni) {
    let tag = format!("scalar:opt={}:nilne={}", optional as u8, nil_ne as u8);
    let fields: Vec<(&str, Ty, bool)> = vec![
        ("i", Ty::Int, optional),
        ("s", Ty::Bytes, optional),
        ("ip", Ty::Ip, optional),
        ("t", Ty::Bool, optional),
        ("u", Ty::Bool, optional),
        ("v", Ty::Bool, optional),
        ("w", Ty::Bool, optional),
        ("x", Ty::Bool, optional),
        ("y", Ty::Bool, optional),
    ];
    (tag, Uni::new(&fields, &[], nil_ne))
}

/// Container universe (C02, C03, C04, C07, C12): every nesting up to depth 3 that matters,
/// optional twins (suffix `o`), harness functions and lists.
pub fn containers(nil_ne: bool) -> (String, Uni) {
    let tag = format!("containers:nilne={}", nil_ne as u8);
    let a = Ty::arr;
    let m = Ty::map;
    let fields: Vec<(&str, Ty, bool)> = vec![
        ("i", Ty::Int, true),
        ("s", Ty::Bytes, true),
        ("ip", Ty::Ip, true),
        ("t", Ty::Bool, true),
        ("u", Ty::Bool, true),
        ("xi", a(Ty::Int), true),
        ("xs", a(Ty::Bytes), true),
        ("xb", a(Ty::Bool), true),
        ("yb", a(Ty::Bool), true),
        ("mi", m(Ty::Int), true),
        ("ms", m(Ty::Bytes), true),
        ("mb", m(Ty::Bool), true),
        ("xxi", a(a(Ty::Int)), true),
        ("xxs", a(a(Ty::Bytes)), true),
        ("mxi", m(a(Ty::Int)), true),
        ("xmi", a(m(Ty::Int)), true),
        ("xxxi", a(a(a(Ty::Int))), true),
        ("mmb", m(m(Ty::Bool)), true),
        ("xxb", a(a(Ty::Bool)), true),
        ("mxb", m(a(Ty::Bool)), true),
        ("xip", a(Ty::Ip), true),
    ];
    let funcs = [
        "idb", "len", "up", "nie", "arr", "opt", "lit", "both", "sum", "cat2", "pick", "cnt", "inc", "isb", "nul",
        "fb", "fa", "concat", "ctxfn",
    ];
    let uni = Uni::new(&fields, &funcs, nil_ne).with_lists(&[
        (Ty::Int, ListKind::Set),
        (Ty::Bytes, ListKind::Set),
        (Ty::Ip, ListKind::Set),
    ]);
    (tag, uni)
}

/// (function, field it is applied to) for the identity functions on container types.
pub const ID_FNS: [(&str, &str); 6] = [("idxi", "xi"), ("idmi", "mi"), ("idms", "ms"), ("idxxi", "xxi"), ("idmxi", "mxi"), ("idxmi", "xmi")];

/// The container universe plus identity functions on container types (C02: function results
/// indexed like fields).
pub fn containers_id(nil_ne: bool) -> (String, Uni) {
    let (tag, mut uni) = containers(nil_ne);
    for (f, _) in ID_FNS {
        uni.funcs.push(crate::uni::fn_spec(f));
    }
    (tag.replacen("containers", "containers-id", 1), uni)
}

/// Typing universe (C04): the container universe with `i s t xi xb` mandatory.
pub fn typing(nil_ne: bool) -> (String, Uni) {
    let (_, mut uni) = containers(nil_ne);
    for f in uni.fields.iter_mut() {
        if ["i", "s", "t", "xi", "xb"].contains(&f.0.as_str()) {
            f.2 = false;
        }
    }
    (format!("typing:nilne={}", nil_ne as u8), uni)
}

/// Nesting universe (C13): `t:Bool xb:Array(Bool) s:Bytes` + identity functions
/// (`fade` is made of hex letters only and goes through the argument lexer's fallback path).
pub fn nest() -> (String, Uni) {
    let fields: Vec<(&str, Ty, bool)> =
        vec![("t", Ty::Bool, true), ("xb", Ty::arr(Ty::Bool), true), ("s", Ty::Bytes, true), ("b", Ty::Bool, true)];
    ("nest".to_string(), Uni::new(&fields, &["fb", "fa", "fade", "pick", "idb"], true))
}

pub fn by_tag(tag: &str) -> Option<Uni> {
    let head = tag.split(':').next()?;
    match head {
        "scalar" => Some(scalar(flag(tag, "opt"), flag(tag, "nilne")).1),
        "containers" => Some(containers(flag(tag, "nilne")).1),
        "containers-id" => Some(containers_id(flag(tag, "nilne")).1),
        "typing" => Some(typing(flag(tag, "nilne")).1),
        "nest" => Some(nest().1),
        _ => crate::checks::universe_by_tag(tag),
    }
}
